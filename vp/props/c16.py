"""C16 - IMU preintegration equals the documented recursion and is chunking-invariant."""
import itertools
import os
import numpy as np
import torch
import pypose as pp
from hypothesis import strategies as st

from ..core import Sub, CaseAbort, Rec, load_known
from ..ref import lie as R
from ..ref import imu as RI
from .. import tu

PROPERTY = "C16"
CT = 32.0          # states:      |err| <= CT * (k+1) * eps * (sum of |terms| entering the state of frame k)
CS = 64.0          # covariance:  asymmetry / negative eigenvalue <= CS * eps * |cov|
CV = 64.0          # covariance of two feedings of the same stream: <= CV * (F+1) * eps * max|cov|
COV_KEY = "imu_cov_product_order"
GRAVS = (0.0, 9.8125, 9.75)          # exactly representable in float32 (the constructor stores gravity in float32)
NB, NF = 4, 200
WMAX = (0.0, 1e-3, 0.3, 2.0, 2.0, 3.2, 7.0)      # bound of the per-frame rotation angle |w dt| (rad): beyond pi and beyond 2 pi too
BH_KEY = "imu_init_state_BH"
# imu_init_state_BH (known_findings F22, repaired in /repo 82e1928): forward() documents init_state['pos'|'rot'|'vel'] with
# shape (B, H_in); for B > 1 that shape was broadcast against the (B, F, H) increments with B aligned to the FRAME axis
# (RuntimeError for B != F; B == F with a supplied rot silently paired initial state b with frame b).  The assertion is
# unconditional; KNOWN_OPEN is empty and kept only as routing should a finding ever have to be recorded as open again.
KNOWN_OPEN = set()
BIGF = (41, 47, 62, 63, 64, 65, 100, 126, 127, 128, 129, 150, 199, 200)

RULE = ("Bulk data is a pure function of an integer seed (np.random.RandomState): per-frame dt in [1e-4,1] (log-uniform / "
        "small / large / constant / {1e-4,1} edges), gyro = random direction * U[0,wmax]/dt with wmax in {0,1e-3,0.3,2,3.2,7} "
        "(per-frame rotation |w dt| up to 7 rad: beyond pi and beyond 2 pi, labels angle>pi / angle>2pi; rotations are compared "
        "as matrices, so the quaternion double cover is immaterial), acc = N(0,1)*{0,1,10,100}, known rotations = random unit "
        "quaternions per frame or none, gravity in {0, 9.8125, 9.75}, initial state default / constructor arguments / "
        "init_state dict as (B,1,H) (examples) or the documented (B,H) (B=1..4, B == F half the time; finding "
        "'%s', repaired in /repo, asserted), B in 1..4, F in 1..200 "
        "(Hypothesis: 1..40 three times out of five, else 1..8 or a value > 40; enumeration every_F: EVERY F in 1..200 in one "
        "call and split in two), float32 / float64 (module.double()), gyro/acc covariances default / constructor float / "
        "constructor 3-vector / 3-vectors passed to every forward() call (recursion: the latter must give the states and "
        "covariance of an integrator constructed with them, 64 (F+1) eps max|C|).  Oracle: sequential float64 recursion written "
        "from the docstring with the harness's own "
        "quaternion algebra (vp/ref/imu.py): dR<-dR Exp(w dt), dv<-dv+dR a dt, dp<-dp+dv dt+1/2 dR a dt^2 (pre-update dR, dv), "
        "rot=R0 dR, vel=v0+R0 dv, pos=p0+R0 dp+v0 Dt, a=acc-Rg^-1 g with g the module's gravity buffer as stored; Rg is the "
        "supplied rotation of the frame, or (none supplied, g != 0) the integrated rotation where BOTH readings (before / after "
        "the frame's increment) are accepted, one reading for the whole case (label gravity_reading:* shows which one the tree "
        "implements).  ALL F returned states are compared: rotation "
        "matrices to 32 (k+1) eps (the rounding of the argument w dt moves a frame's rotation by <= |w dt| eps <= 7 eps, "
        "the quaternion product by a few eps), vel/pos to 32 (k+1) eps * (sum of the magnitudes of all terms entering frame k).  "
        "chunking / every_F / compositions: the same stream fed to ONE integrator (reset=False) in a drawn composition of F "
        "(one chunk, all ones, two, few, many cuts, dense = every interior point cut with probability 0.2/0.5/0.8; streams "
        "longer than 32 go one sample per call (up to 200 calls) for 1 in 8 (quick) / 1 in 2 (thorough) of the all-ones draws and "
        "dense is limited to about 15 calls in quick; compositions: ALL 2^(F-1) compositions for F <= 6 (9 thorough)), carried "
        "by the module buffers (after the constructor state, or after an init_state dict given to the FIRST call only: "
        "dict-then-buffer) or by passing the last returned state as init_state to every later call (after a dict or after the "
        "constructor state): chunked states == one-call states == "
        "reference, same tolerance.  ranks: B=1 streams fed as (F,H) and frame-by-frame as (H) (F <= 24, a share up to 200) "
        "equal the (1,F,H) call.  "
        "Every returned covariance: finite, |C-C^T| <= 64 eps max|C|, lambda_min >= -64 eps |C|_2.  Covariance of two "
        "feedings of one stream (module-buffer carry, incl. dict-then-buffer) equal to 64 (F+1) eps max|C| - the documented "
        "per-frame recursion C <- A C A^T + B diag(Cg,Ca) B^T does not know call boundaries: asserted for feedings whose calls "
        "have one frame (the first may have two); for calls with more frames see the finding '%s' (asserted once it is triaged "
        "in known_findings.json - it is: fixed -, measured until then).  Non-trivial: F+1 not a power of two, gravity != 0, "
        "non-identity initial "
        "rotation and (chunking, every_F, compositions, ranks) >= 2 calls; distinct = (sub-check, F, #calls class, known "
        "rotation, gravity, dtype, init mode, B, rank mode)." % (BH_KEY, COV_KEY))
ASSUMPTIONS = ["dt > 0 within [1e-4, 1]; |w dt| <= 7; |acc| <~ 500; supplied rotations are unit quaternions up to rounding",
               "gravity values exactly representable in float32; the reference reads the module's public `gravity` buffer",
               "R_j = R_i * dR_ij (the docstring's 'dR_ij * R_i' contradicts its own v_j, p_j lines and the recursion; the "
               "property statement says rot = R0 dR)",
               "gravity removal with the INTEGRATED rotation: the statement does not say whether the rotation before or after "
               "the frame's increment is meant (the docstring's composition with '+ g Dt' terms equals the 'before' reading, "
               "the code uses 'after'); either is accepted if it explains every frame of the case",
               "init_state tensors have shape (B,1,H) as in the examples or the documented (B,H); (B,H) with B > 1 was mishandled (known_findings "
               "F22, repaired in /repo) and is asserted like every other shape; the undocumented init_state keys "
               "'cov' / 'Rij' are not passed",
               "gyro_cov / acc_cov given to forward() are three-element tensors, the form the constructor documents (forward's "
               "docstring gives no shape)",
               "a call without init_state after a call with init_state (reset=False) continues from the end of that call "
               "('the integration starts from the last integration')",
               "covariance VALUES are not compared with an independent reference (the statement only asks symmetric PSD); "
               "they ARE compared between feedings of the same stream and between constructor / per-call measurement "
               "covariances, which the documented per-frame recursion implies"]


def _pow2(n):
    return n & (n - 1) == 0


def _cov_status():
    """finding COV_KEY: propagate_cov multiplies the per-frame transition matrices in reversed order, so the
    covariance of a call with >= 3 frames (>= 2 with a non-zero carried covariance) is not the documented recursion
    and differs between chunkings.  Until the lead has triaged it (entry with this key in known_findings.json) the
    covariance comparison between feedings is only MEASURED in that region; status 'open' -> asserted and routed
    through KNOWN below, 'fixed' -> asserted like everything else."""
    if "status" not in _COV_MEMO:
        _COV_MEMO["status"] = None
        for k in load_known():
            if k.get("key") == COV_KEY:
                _COV_MEMO["status"] = k.get("status")
    return _COV_MEMO["status"]


_COV_MEMO = {}


# ------------------------------------------------------------------------------------------------------
class Data:
    pass


def _expand(case):
    """all inputs of a case (pure function of the case); prefix-stable in B and F for the shrinker"""
    B, F, dtype = case["B"], case["F"], case["dtype"]
    td = tu.TD[dtype]
    rs = np.random.RandomState(case["seed"] % (2 ** 31))
    u = rs.uniform(size=(NB, NF, 1))
    mode = case["dt_mode"]
    if mode == "log":
        dt = 10.0 ** (-4.0 * u)
    elif mode == "small":
        dt = 10.0 ** (-4.0 + 2.0 * u)
    elif mode == "large":
        dt = 0.1 + 0.9 * u
    elif mode == "const":
        dt = np.full_like(u, 10.0 ** (-4.0 * u[0, 0, 0]))
    elif mode == "edge":
        dt = np.where(u < 0.5, 1e-4, 1.0)
    else:
        raise ValueError(mode)
    dt = np.clip(dt, 1.0001e-4, 1.0)
    d = rs.randn(NB, NF, 3)
    d /= np.linalg.norm(d, axis=-1, keepdims=True)
    ang = rs.uniform(size=(NB, NF, 1)) * case["wmax"]
    gyro = d * ang / dt
    acc = rs.randn(NB, NF, 3) * case["ascale"]
    q = rs.randn(NB, NF, 4)
    q /= np.linalg.norm(q, axis=-1, keepdims=True)
    q0 = rs.randn(NB, 4)
    q0 /= np.linalg.norm(q0, axis=-1, keepdims=True)
    p0 = rs.randn(NB, 3) * case["pscale"]
    v0 = rs.randn(NB, 3) * case["vscale"]
    gc = 10.0 ** rs.uniform(-6, -2, 3)
    ac = 10.0 ** rs.uniform(-4, -1, 3)

    D = Data()
    D.B, D.F, D.dtype, D.td, D.eps = B, F, dtype, td, tu.EPS[dtype]
    D.dt = torch.tensor(dt[:B, :F], dtype=td)
    D.gyro = torch.tensor(gyro[:B, :F], dtype=td)
    D.acc = torch.tensor(acc[:B, :F], dtype=td)
    D.rot = pp.SO3(torch.tensor(q[:B, :F], dtype=td)) if case["known"] else None
    init = case["init"]
    if init == "default":
        p0, q0, v0 = np.zeros((B, 3)), np.tile([0.0, 0, 0, 1.0], (B, 1)), np.zeros((B, 3))
    elif init == "ctor":                       # one state shared by the batch
        p0, q0, v0 = np.tile(p0[:1], (B, 1)), np.tile(q0[:1], (B, 1)), np.tile(v0[:1], (B, 1))
    else:
        p0, q0, v0 = p0[:B], q0[:B], v0[:B]
    D.tp0, D.tq0, D.tv0 = (torch.tensor(x, dtype=td) for x in (p0, q0, v0))
    D.gc, D.ac = torch.tensor(gc, dtype=td), torch.tensor(ac, dtype=td)
    # the reference sees exactly the (rounded) values the module sees
    D.n = {k: tu.npy(getattr(D, k)) for k in ("dt", "gyro", "acc")}
    D.n["rot"] = tu.npy(D.rot) if D.rot is not None else None
    D.n["p0"], D.n["q0"], D.n["v0"] = tu.npy(D.tp0), tu.npy(D.tq0), tu.npy(D.tv0)
    D.maxang = float(np.linalg.norm(D.n["gyro"] * D.n["dt"], axis=-1).max())        # largest per-frame rotation |w dt| actually fed
    return D


def _angle_labels(case, D):
    return ["wmax:%g" % case["wmax"], "angle>2pi" if D.maxang > 2 * np.pi else ("angle>pi" if D.maxang > np.pi else "angle<=pi")]


def _make(case, D):
    kw = dict(gravity=case["grav"], prop_cov=case.get("prop_cov", True), reset=case.get("reset", False))
    cm = case.get("cov_mode", "default")
    if cm == "float":
        kw.update(gyro_cov=float(D.gc[0]), acc_cov=float(D.ac[0]))
    elif cm == "vec":
        kw.update(gyro_cov=D.gc.clone(), acc_cov=D.ac.clone())
    if case["init"] == "ctor":
        m = pp.module.IMUPreintegrator(pos=D.tp0[0].clone(), rot=pp.SO3(D.tq0[0].clone()), vel=D.tv0[0].clone(), **kw)
    else:
        m = pp.module.IMUPreintegrator(**kw)
    if D.dtype == "float64":
        m = m.double()
    return m


def _unpack(rec, o, Bc, c, strict, prop_cov, what):
    """validate the documented structure of the returned dict; -> rot (Bc,c,4), vel, pos (Bc,c,3), cov (Bc,9,9)|None"""
    ok = isinstance(o, dict) and all(k in o for k in ("rot", "vel", "pos")) and (not prop_cov or "cov" in o)
    if not rec.check(ok, "output:keys", lambda: "%s returned %s" % (what, list(o) if isinstance(o, dict) else type(o))):
        raise CaseAbort()
    rot, vel, pos = o["rot"], o["vel"], o["pos"]
    if not rec.check(isinstance(rot, pp.LieTensor) and rot.ltype == pp.SO3_type and torch.is_tensor(vel)
                     and torch.is_tensor(pos), "output:type", "%s: 'rot' is not an SO3 LieTensor / vel, pos not tensors" % what):
        raise CaseAbort()
    want = {"rot": (Bc, c, 4), "vel": (Bc, c, 3), "pos": (Bc, c, 3)}
    got = {"rot": tuple(rot.shape), "vel": tuple(vel.shape), "pos": tuple(pos.shape)}
    cov = o.get("cov") if prop_cov else None
    if prop_cov:
        want["cov"] = (Bc, 9, 9)
        got["cov"] = tuple(cov.shape) if torch.is_tensor(cov) else None
    if strict:
        good = got == want
    else:       # the docstring gives output shapes only for (B,F,H) inputs: lower ranks only need the right content size
        good = all(got[k] is not None and int(np.prod(got[k])) == int(np.prod(want[k])) for k in want)
    if not rec.check(good, "output:shape", "%s: shapes %s, documented %s" % (what, got, want)):
        raise CaseAbort()
    r = tu.npy(rot).reshape(want["rot"])
    v = tu.npy(vel).reshape(want["vel"])
    p = tu.npy(pos).reshape(want["pos"])
    C = tu.npy(cov).reshape(want["cov"]) if prop_cov else None
    fin = np.all(np.isfinite(r)) and np.all(np.isfinite(v)) and np.all(np.isfinite(p)) and (C is None or np.all(np.isfinite(C)))
    if not rec.check(fin, "nonfinite", "%s returned non-finite values" % what):
        raise CaseAbort()
    return r, v, p, C


def _feed(rec, what, case, D, chunks, carry="buffer", ranks=None):
    """feed the stream to ONE integrator in consecutive chunks.  carry: 'buffer' (module state, reset=False) or
    'explicit' (init_state = last returned state, as examples/module/imu/imu_corrector.py does).
    ranks: per chunk 3 (B,c,H), 2 (c,H; B==1) or 1 (H; B==1, c==1)."""
    B, F = D.B, D.F
    prop_cov = case.get("prop_cov", True)
    m = _make(case, D)
    with rec.sut("reading gravity buffer"):
        g = tu.npy(m.gravity).reshape(3)
    rec.check(np.array_equal(g, [0.0, 0.0, float(np.float32(case["grav"]))]), "gravity_buffer",
              "gravity buffer %s for gravity=%r" % (g.tolist(), case["grav"]))
    init = case["init"]
    state = None
    if init == "dict":
        state = {"pos": D.tp0[:, None].clone(), "rot": pp.SO3(D.tq0[:, None].clone()), "vel": D.tv0[:, None].clone()}
    elif init == "dict_BH":
        state = {"pos": D.tp0.clone(), "rot": pp.SO3(D.tq0.clone()), "vel": D.tv0.clone()}
    rots, vels, poss, covs = [], [], [], []
    i = 0
    for j, c in enumerate(chunks):
        if j == 1 and case.get("seed", 0) % 5 == 2:
            # the stream continues on a copy.deepcopy of the integrator (nn.Module semantics: same buffers, independent object)
            import copy as _copy
            with rec.sut("copy.deepcopy(IMUPreintegrator)"):
                m = _copy.deepcopy(m)
            rec.label("integrator_deepcopied_between_chunks")
        rk = 3 if ranks is None else ranks[j]
        sl = (slice(None), slice(i, i + c))
        args = [D.dt[sl], D.gyro[sl], D.acc[sl], None if D.rot is None else D.rot[sl]]
        if rk <= 2:
            args = [None if a is None else a[0] for a in args]
        if rk == 1:
            args = [None if a is None else a[0] for a in args]
        kw = {}
        if state is not None and (j == 0 or carry == "explicit"):
            kw["init_state"] = state
        if case.get("cov_mode") == "call_vec":       # documented forward() arguments, in the form the constructor documents
            kw.update(gyro_cov=D.gc.clone(), acc_cov=D.ac.clone())
        with rec.sut("%s call %d/%d (frames %d..%d)" % (what, j + 1, len(chunks), i, i + c - 1)):
            o = m(dt=args[0], gyro=args[1], acc=args[2], rot=args[3], **kw)
        r, v, p, C = _unpack(rec, o, B, c, rk == 3, prop_cov, what)
        if carry == "explicit":
            state = {"pos": o["pos"][..., -1:, :], "rot": o["rot"][..., -1:, :], "vel": o["vel"][..., -1:, :]}
        rots.append(r); vels.append(v); poss.append(p); covs.append(C)
        i += c
    assert i == F
    return {"rot": np.concatenate(rots, 1), "vel": np.concatenate(vels, 1), "pos": np.concatenate(poss, 1),
            "covs": covs, "g": g, "chunks": list(chunks)}


def _references(case, D, g):
    """per accepted gravity reading: reference arrays over (B, F)"""
    modes = ("any",) if (case["known"] or not np.any(g)) else ("post", "pre")
    return {mode: RI.preintegrate(D.n["dt"][..., 0], D.n["gyro"], D.n["acc"], g, D.n["q0"], D.n["p0"], D.n["v0"],
                                  rot=D.n["rot"], mode="post" if mode == "any" else mode) for mode in modes}


def _ratio(err, tol):
    out = np.zeros_like(err)
    nz = err > 0
    out[nz] = err[nz] / np.maximum(tol[nz], 1e-300)
    return out


def _state_ratios(D, got, oth, ref):
    """error / tolerance of every state (B,F) of `got` against `oth` (reference or another feeding)"""
    k1 = (np.arange(1, D.F + 1) + 1.0)[None, :]
    e = {}
    e["rot"] = _ratio(np.abs(RI.qrot_n(got["rot"]) - RI.qrot_n(oth["rot"])).reshape(D.B, D.F, -1).max(-1), CT * D.eps * k1 * np.ones((D.B, 1)))
    e["vel"] = _ratio(np.abs(got["vel"] - oth["vel"]).max(-1), CT * D.eps * k1 * ref["sv"])
    e["pos"] = _ratio(np.abs(got["pos"] - oth["pos"]).max(-1), CT * D.eps * k1 * ref["sp"])
    return {q: (float(v.max()),) + tuple(int(i) for i in np.unravel_index(int(np.argmax(v)), v.shape)) for q, v in e.items()}


def _cfg(case, D):
    return "%s:%s:%s" % ("known" if case["known"] else "integ", "g" if case["grav"] else "g0", D.dtype)


def _vs_reference(rec, tag, case, D, got, refs):
    """accept if ONE gravity reading explains all rows and frames; returns the accepted reading"""
    res = {mode: _state_ratios(D, got, ref, ref) for mode, ref in refs.items()}
    best = min(res, key=lambda mo: max(v[0] for v in res[mo].values()))
    w = res[best]
    for q in ("rot", "vel", "pos"):
        key = "%s_%s" % (tag, q)
        rec.notes[key] = max(rec.notes.get(key, 0.0), w[q][0])
    for q in ("rot", "vel", "pos"):
        if not (w[q][0] <= 1.0):
            rec.fail("%s:%s:%s" % (tag, q, _cfg(case, D)), "%s: %s of batch row %d frame %d (of F=%d, B=%d) differs from the "
                     "documented recursion by %.3g x tolerance (32 (k+1) eps * scale); worst ratios per gravity reading %s; "
                     "calls %s" % (tag, q, w[q][1], w[q][2], D.F, D.B, w[q][0],
                                   {mo: {qq: float("%.3g" % v[0]) for qq, v in r.items()} for mo, r in res.items()}, got["chunks"][:12]))
            break
    if len(res) == 2:
        okm = [mo for mo in res if max(v[0] for v in res[mo].values()) <= 1.0]
        rec.label("gravity_reading:" + ("both" if len(okm) == 2 else (okm[0] if okm else "none")))
    return best


def _vs_feeding(rec, tag, case, D, A, Bf, ref):
    """two feedings of the same stream give the same states"""
    w = _state_ratios(D, A, Bf, ref)
    for q in ("rot", "vel", "pos"):
        key = "%s_%s" % (tag, q)
        rec.notes[key] = max(rec.notes.get(key, 0.0), w[q][0])
    for q in ("rot", "vel", "pos"):
        if not (w[q][0] <= 1.0):
            rec.fail("%s:%s:%s" % (tag, q, _cfg(case, D)), "%s: %s of batch row %d frame %d (F=%d) differs between feedings %s "
                     "and %s by %.3g x tolerance" % (tag, q, w[q][1], w[q][2], D.F, A["chunks"][:12], Bf["chunks"][:12], w[q][0]))
            break


def _cov_valid(rec, D, feed, tag):
    for j, C in enumerate(feed["covs"]):
        if C is None:
            continue
        for b in range(C.shape[0]):
            M = C[b]
            sc = float(np.abs(M).max())
            if sc == 0.0:
                continue
            asym = float(np.abs(M - M.T).max()) / (CS * D.eps * sc)
            ev = np.linalg.eigvalsh(0.5 * (M + M.T))
            neg = max(0.0, -float(ev.min())) / (CS * D.eps * float(np.abs(ev).max()))
            rec.notes["cov_asym"] = max(rec.notes.get("cov_asym", 0.0), asym)
            rec.notes["cov_neg"] = max(rec.notes.get("cov_neg", 0.0), neg)
            if not rec.check(asym <= 1.0, "cov:symmetric:" + D.dtype, lambda: "%s call %d row %d: |C-C^T|max = %.3g x (64 eps "
                             "max|C|), max|C| = %.3g, chunks %s" % (tag, j, b, asym, sc, feed["chunks"][:12])):
                return
            if not rec.check(neg <= 1.0, "cov:psd:" + D.dtype, lambda: "%s call %d row %d: lambda_min = %.3g, |C|_2 = %.3g "
                             "(%.3g x tolerance), chunks %s" % (tag, j, b, float(ev.min()), float(np.abs(ev).max()), neg,
                                                               feed["chunks"][:12])):
                return


def _cov_pair(rec, D, A, Bf, bucket, what):
    """final covariances of two feedings that perform the same per-frame operations"""
    CA, CB = A["covs"][-1], Bf["covs"][-1]
    if CA is None or CB is None:
        return
    sc = max(float(np.abs(CA).max()), float(np.abs(CB).max()))
    if sc == 0.0:
        return
    ratio = float(np.abs(CA - CB).max()) / (CV * (D.F + 1) * D.eps * sc)
    rec.notes[bucket] = max(rec.notes.get(bucket, 0.0), ratio)
    rec.check(ratio <= 1.0, "%s:%s" % (bucket, D.dtype), lambda: "%s: final covariances (F=%d, calls %s / %s) differ by %.3g of "
              "max|C| = %.3g x tolerance" % (what, D.F, A["chunks"][:12], Bf["chunks"][:12], ratio * CV * (D.F + 1) * D.eps, ratio))


def _cov_clean(chunks):
    """feeding outside the region of finding COV_KEY: every call one frame, the first call at most two"""
    return chunks[0] <= 2 and all(c == 1 for c in chunks[1:])


def _cov_between(rec, D, feeds):
    """final covariance of different feedings of the same stream (module-buffer carry)"""
    status = _cov_status()
    for A, Bf in itertools.combinations(feeds, 2):
        CA, CB = A["covs"][-1], Bf["covs"][-1]
        if CA is None or CB is None:
            continue
        sc = max(float(np.abs(CA).max()), float(np.abs(CB).max()))
        if sc == 0.0:
            continue
        ratio = float(np.abs(CA - CB).max()) / (CV * (D.F + 1) * D.eps * sc)
        clean = _cov_clean(A["chunks"]) and _cov_clean(Bf["chunks"])
        msg = lambda: ("final covariance of feedings %s and %s of the same stream (F=%d) differ by %.3g of max|C| = %.3g x "
                       "tolerance" % (A["chunks"][:12], Bf["chunks"][:12], D.F, ratio * CV * (D.F + 1) * D.eps, ratio))
        if clean:
            rec.notes["covchunk"] = max(rec.notes.get("covchunk", 0.0), ratio)
            rec.label("covchunk:asserted")
            rec.check(ratio <= 1.0, "cov_chunk:" + D.dtype, msg)
        elif status is not None:
            rec.notes["covchunk_multi"] = max(rec.notes.get("covchunk_multi", 0.0), ratio)
            rec.label("covchunk:asserted_multi")
            rec.check(ratio <= 1.0, "cov_chunk:order:" + D.dtype, msg)
        else:
            rec.label("covchunk:untriaged_" + ("mismatch" if ratio > 1.0 else "match"))


# ------------------------------------------------------------------------------------------------------
_seed = st.integers(0, 2 ** 31 - 1)


def _F(tier):
    if tier == "quick":
        return st.one_of(st.integers(1, 40), st.integers(1, 40), st.integers(1, 40), st.integers(1, 8),
                         st.one_of(st.sampled_from(BIGF), st.integers(41, 200)))
    return st.one_of(st.integers(1, 200), st.integers(1, 200), st.integers(1, 40), st.integers(1, 8))


def _config(draw, tier, B=None, inits=("default", "ctor", "ctor", "dict")):
    return {"B": draw(st.integers(1, NB)) if B is None else B, "F": draw(_F(tier)),
            "dtype": draw(st.sampled_from(("float64", "float32"))), "known": draw(st.booleans()),
            "grav": draw(st.sampled_from((0.0, 9.8125, 9.75, 9.8125))), "init": draw(st.sampled_from(inits)),
            "seed": draw(_seed), "dt_mode": draw(st.sampled_from(("log", "log", "small", "large", "const", "edge"))),
            "wmax": draw(st.sampled_from(WMAX)), "ascale": draw(st.sampled_from((0.0, 1.0, 10.0, 10.0, 100.0))),
            "pscale": draw(st.sampled_from((1.0, 100.0))), "vscale": draw(st.sampled_from((1.0, 10.0))),
            "cov_mode": draw(st.sampled_from(("default", "default", "float", "vec", "call_vec")))}


LONG = 32          # streams longer than this are fed one sample per call only in a share of the draws (cost: F module calls)


def _share(key, m):
    """True for one in m of the drawn stream seeds (a pure function of the case; Hypothesis over-samples the ends of a small
    integer range, which would make the expensive classes far more frequent than intended)"""
    return (int(key) * 2654435761 >> 9) % m == 0


def _composition(draw, F, tier="quick", key=0):
    if F == 1:
        return [1]
    kind = draw(st.sampled_from(("two", "few", "ones", "many", "first2", "two", "few", "one", "dense")))
    if kind == "one":
        return [F]
    if kind in ("ones", "first2") and F > LONG and not _share(key, 8 if tier == "quick" else 2):
        kind = "many" if tier == "quick" else "dense"     # quick: 1 in 8, thorough: 1 in 2 of the long streams really go one sample per call
    if kind == "ones":
        return [1] * F
    if kind == "first2":
        return [2] + [1] * (F - 2)
    if kind == "two":
        cuts = {draw(st.integers(1, F - 1))}
    elif kind == "dense":          # every interior point is a cut with probability p: up to F-1 cuts for every F
        rs = np.random.RandomState(draw(_seed))
        pc = draw(st.sampled_from((0.2, 0.5, 0.8)))
        if tier == "quick":
            pc = min(pc, 14.0 / F)     # about 15 calls in the quick tier
        cuts = {i for i in range(1, F) if rs.uniform() < pc} or {1 + draw(st.integers(0, F - 2))}
    else:
        cuts = draw(st.sets(st.integers(1, F - 1), min_size=1, max_size=min(F - 1, 4 if kind == "few" else 12)))
    pts = [0] + sorted(cuts) + [F]
    return [b - a for a, b in zip(pts[:-1], pts[1:])]


def _common_simplify(case):
    if case["F"] > 1:
        for F in sorted({1, 2, 3, case["F"] // 2, case["F"] - 1}):
            if 1 <= F < case["F"]:
                yield dict(case, F=F)
    if case["B"] > 1:
        yield dict(case, B=1)
    if case["dtype"] == "float32":
        yield dict(case, dtype="float64")
    for k, v in (("known", False), ("cov_mode", "default"), ("dt_mode", "const"), ("wmax", 0.3), ("ascale", 1.0),
                 ("pscale", 1.0), ("vscale", 1.0), ("seed", 0), ("grav", 0.0)):
        if case[k] != v:
            yield dict(case, **{k: v})
    if case["init"] not in ("default", "ctor"):
        yield dict(case, init="ctor")
    if case["init"] != "default":
        yield dict(case, init="default")


def _fit_chunks(chunks, F):
    out, s = [], 0
    for c in chunks:
        if s >= F:
            break
        c = min(c, F - s)
        out.append(c); s += c
    if s < F:
        out.append(F - s)
    return out


def _base_valid(case):
    return (1 <= case["B"] <= NB and 1 <= case["F"] <= NF and case["grav"] in GRAVS and 0 <= case["wmax"] <= max(WMAX)
            and 0 <= case["ascale"] <= 100.0 and case.get("carry", "buffer") in ("buffer", "explicit"))


def _carry(case):
    """how the state travels between the calls of one feeding (older replay files have no 'carry': explicit for a dict)"""
    return case.get("carry") or ("explicit" if case["init"] == "dict" else "buffer")


def _open_BH(case):
    return case["init"] == "dict_BH" and case["B"] > 1


def _guard_open(key, active, rec, body):
    """run body(rec); while finding `key` is in KNOWN_OPEN and the case lies in its region (`active`), a failure is
    only counted (label open:<key>:<bucket class>) instead of reported - see KNOWN_OPEN"""
    if not (active and key in KNOWN_OPEN):
        return body(rec)
    probe = Rec()
    try:
        body(probe)
    except CaseAbort:
        pass
    if probe.discard is not None:
        rec.discard_case(probe.discard)
    if probe.fails:
        rec.label("open:%s" % key, "open:%s:%s" % (key, ":".join(probe.fails[0][0].split("@")[0].split(":")[:2])))
        return
    rec.labels.extend(probe.labels); rec.nts.extend(probe.nts)
    for k, v in probe.notes.items():
        rec.notes[k] = max(rec.notes.get(k, v), v)
    rec.label("open:%s:holds" % key)


class Recursion(Sub):
    """one call: all F returned states equal the documented recursion"""
    name = "recursion"
    n = {"quick": 1800, "thorough": 60000}
    budget_s = {"quick": 400.0, "thorough": 4000.0}

    def strategy(self, tier):
        @st.composite
        def s(draw):
            c = _config(draw, tier)
            r = draw(st.integers(0, 7))
            if c["B"] == 1 and r < 4:
                c["init"] = draw(st.sampled_from(("dict", "dict_BH")))
            elif c["B"] > 1 and r == 0:          # the documented (B,H) initial state for a real batch, B == F half the time
                c["init"] = "dict_BH"
                if draw(st.booleans()):
                    c["F"] = c["B"]
            c["prop_cov"], c["reset"] = draw(st.sampled_from(((True, False), (True, False), (True, True), (False, True))))
            return c
        return s()

    def oracle(self, case, rec):
        if _open_BH(case):
            rec.label("init:dict_BH:B>1", "init:dict_BH:B==F" if case["B"] == case["F"] else "init:dict_BH:B!=F")
        _guard_open(BH_KEY, _open_BH(case), rec, lambda r: self._oracle(case, r))

    def _oracle(self, case, rec):
        D = _expand(case)
        one = _feed(rec, "single call", case, D, [D.F])
        refs = _references(case, D, one["g"])
        mode = _vs_reference(rec, "state", case, D, one, refs)
        _cov_valid(rec, D, one, "single call")
        if case.get("cov_mode") == "call_vec" and case["prop_cov"]:
            # gyro_cov / acc_cov given to forward() replace the constructor's: same states and covariance as an integrator
            # CONSTRUCTED with these covariances
            twin = _feed(rec, "constructor-covariance twin", dict(case, cov_mode="vec"), D, [D.F])
            _vs_feeding(rec, "callcov_vs_ctor", case, D, one, twin, refs[mode])
            _cov_pair(rec, D, one, twin, "cov_percall", "covariances passed to forward() vs to the constructor")
        rec.label(D.dtype, "known_rot" if case["known"] else "integrated_rot", "g" if case["grav"] else "g0",
                  "init:" + case["init"], "pow2" if _pow2(D.F + 1) else "nonpow2", "F>40" if D.F > 40 else "F<=40",
                  "prop_cov" if case["prop_cov"] else "no_cov", "reset" if case["reset"] else "noreset",
                  "cov_mode:" + case.get("cov_mode", "default"), "B=%d" % D.B, *_angle_labels(case, D))
        if not _pow2(D.F + 1) and case["grav"] and case["init"] != "default":
            rec.nt(("rec", D.F, case["known"], case["grav"], D.dtype, case["init"], D.B))

    def simplify(self, case):
        yield from _common_simplify(case)
        if not case["prop_cov"] or case["reset"]:
            yield dict(case, prop_cov=True, reset=False)

    def valid(self, case):
        return _base_valid(case) and (case["prop_cov"] or case["reset"])


class Chunking(Sub):
    """the same stream in one call and in consecutive chunks to ONE integrator with reset=False"""
    name = "chunking"
    n = {"quick": 1000, "thorough": 40000}
    budget_s = {"quick": 400.0, "thorough": 4000.0}
    allones_max = 8

    def strategy(self, tier):
        @st.composite
        def s(draw):
            c = _config(draw, tier)
            r = draw(st.integers(0, 15))
            if c["init"] == "dict":
                # init_state on the first call, then: every later call gets the last returned state (explicit) or nothing
                # (the module buffers carry on: dict-then-buffer)
                c["carry"] = ("explicit", "buffer")[r % 2]
                if r < 4:
                    c["init"] = "dict_BH"
                    if c["B"] > 1 and r < 2:
                        c["F"] = c["B"]
            elif r == 0:
                c["carry"] = "explicit"          # constructor / default state for the first call, explicit afterwards
            c["chunks"] = _composition(draw, c["F"], tier, c["seed"])
            return c
        return s()

    def oracle(self, case, rec):
        if _open_BH(case):
            rec.label("init:dict_BH:B>1", "init:dict_BH:B==F" if case["B"] == case["F"] else "init:dict_BH:B!=F")
        _guard_open(BH_KEY, _open_BH(case), rec, lambda r: self._oracle(case, r))

    def _oracle(self, case, rec):
        D = _expand(case)
        chunks = case["chunks"]
        carry = _carry(case)
        one = _feed(rec, "one call", case, D, [D.F], carry)
        refs = _references(case, D, one["g"])
        mode = _vs_reference(rec, "state", case, D, one, refs)
        _cov_valid(rec, D, one, "one call")
        feeds = [one]
        if len(chunks) > 1:
            ch = _feed(rec, "chunked", case, D, chunks, carry)
            _vs_reference(rec, "chunked_state", case, D, ch, refs)
            _vs_feeding(rec, "chunk_vs_one", case, D, ch, one, refs[mode])
            _cov_valid(rec, D, ch, "chunked")
            feeds.append(ch)
        if 1 < D.F <= self.allones_max and chunks != [1] * D.F:
            ones = _feed(rec, "frame by frame", case, D, [1] * D.F, carry)
            _vs_feeding(rec, "chunk_vs_one", case, D, ones, one, refs[mode])
            _cov_valid(rec, D, ones, "frame by frame")
            feeds.append(ones)
        if carry == "buffer":
            _cov_between(rec, D, feeds)
        nc = len(chunks)
        ncls = "1" if nc == 1 else ("all" if nc == D.F else ("2" if nc == 2 else ("3-5" if nc <= 5 else ">5")))
        rec.label(D.dtype, "known_rot" if case["known"] else "integrated_rot", "g" if case["grav"] else "g0",
                  "init:" + case["init"], "carry:" + carry, "pow2" if _pow2(D.F + 1) else "nonpow2", "chunks:" + ncls,
                  "F>40" if D.F > 40 else "F<=40", "cov_mode:" + case.get("cov_mode", "default"), *_angle_labels(case, D))
        if nc >= 2:
            rec.label("carry:%s_then_%s" % ("dict" if case["init"] in ("dict", "dict_BH") else "ctor", carry))
            if nc == D.F and D.F > LONG:
                rec.label("chunks:all:F>%d" % LONG)
            elif nc > 13:
                rec.label("chunks:>13")
        if not _pow2(D.F + 1) and nc >= 2 and case["grav"] and case["init"] != "default":
            rec.nt((self.name, D.F, ncls, case["known"], case["grav"], D.dtype, case["init"], D.B))

    def simplify(self, case):
        for c in _common_simplify(case):
            yield dict(c, chunks=_fit_chunks(case["chunks"], c["F"]))
        ch = case["chunks"]
        for i in range(len(ch) - 1):
            yield dict(case, chunks=ch[:i] + [ch[i] + ch[i + 1]] + ch[i + 2:])

    def valid(self, case):
        return _base_valid(case) and sum(case["chunks"]) == case["F"] and all(c >= 1 for c in case["chunks"])

    def size(self, case):
        return case["F"] * 1000 + len(case["chunks"]) * 10 + case["B"]


_BASE = {"dt_mode": "log", "wmax": 2.0, "ascale": 10.0, "pscale": 1.0, "vscale": 1.0, "cov_mode": "default"}


class EveryF(Chunking):
    """EVERY frame count 1..200, one call and split in two"""
    name = "every_F"
    kind = "enum"
    exhaustive = False          # exhaustive in F only

    def cases(self, tier):
        reps = 1 if tier == "quick" else 6
        for F in range(1, NF + 1):
            for known in (False, True):
                for r in range(reps):
                    for dtype in (("float64", "float32") if tier != "quick" else (("float64", "float32")[(F + known) % 2],)):
                        c = dict(_BASE, B=1 + (F + r) % NB if r else 1 + F % 2, F=F, dtype=dtype, known=known,
                                 grav=GRAVS[1 + (F + r) % 2], init=("ctor", "dict", "default")[r % 3],
                                 seed=1000 * F + 10 * r + known, dt_mode=("log", "small", "large")[r % 3])
                        if r >= 3:
                            c["carry"] = "buffer"           # r = 4: init_state dict on the first call, buffers afterwards
                        cut = max(1, (F * (r + 1)) // (r + 3))
                        c["chunks"] = [F] if F == 1 else [cut, F - cut]
                        yield c


class Compositions(Chunking):
    """ALL compositions of F for small F"""
    name = "compositions"
    kind = "enum"
    exhaustive = False

    def cases(self, tier):
        Fmax = 6 if tier == "quick" else 9
        for F in range(1, Fmax + 1):
            for cuts in itertools.product((0, 1), repeat=F - 1):
                pts = [0] + [i + 1 for i, b in enumerate(cuts) if b] + [F]
                chunks = [b - a for a, b in zip(pts[:-1], pts[1:])]
                for known in (False, True):
                    for grav in (0.0, 9.75):
                        for dtype in ("float64", "float32"):
                            yield dict(_BASE, B=1 + (F + len(chunks)) % 2, F=F, dtype=dtype, known=known, grav=grav,
                                       init="ctor", seed=77 * F + sum(cuts), chunks=chunks)
                            if tier != "quick" and len(chunks) > 1:      # init_state dict on the first call, buffers afterwards
                                yield dict(_BASE, B=1 + (F + len(chunks)) % 2, F=F, dtype=dtype, known=known, grav=grav,
                                           init="dict", carry="buffer", seed=77 * F + sum(cuts) + 1, chunks=chunks)


class Ranks(Sub):
    """input ranks (H), (F,H), (B,F,H) are equivalent (B = 1)"""
    name = "ranks"
    n = {"quick": 500, "thorough": 15000}
    budget_s = {"quick": 400.0, "thorough": 4000.0}

    def strategy(self, tier):
        @st.composite
        def s(draw):
            c = _config(draw, tier, B=1, inits=("default", "ctor", "ctor"))
            mode = draw(st.sampled_from(("r2", "r2_chunks", "r1", "mixed")))
            if mode == "r1":
                if not _share(c["seed"], 8 if tier == "quick" else 3):          # a share keeps its (long) F: F calls of rank 1
                    c["F"] = min(c["F"], draw(st.integers(1, 24)))
                c["chunks"] = [1] * c["F"]
            elif mode == "r2":
                c["chunks"] = [c["F"]]
            else:
                c["chunks"] = _composition(draw, c["F"], tier, c["seed"])
            c["rank_mode"] = mode
            return c
        return s()

    @staticmethod
    def _ranks(case):
        mode, chunks = case["rank_mode"], case["chunks"]
        if mode == "r1":
            return [1] * len(chunks)
        if mode == "mixed":
            return [1 if (c == 1 and j % 2 == 0) else (2 if j % 3 else 3) for j, c in enumerate(chunks)]
        return [2] * len(chunks)

    def oracle(self, case, rec):
        D = _expand(case)
        one = _feed(rec, "rank-3 call", case, D, [D.F])
        refs = _references(case, D, one["g"])
        mode = _vs_reference(rec, "state", case, D, one, refs)
        rk = self._ranks(case)
        low = _feed(rec, "lower-rank feeding", case, D, case["chunks"], "buffer", ranks=rk)
        _vs_reference(rec, "rank_state", case, D, low, refs)
        _vs_feeding(rec, "rank_vs_full", case, D, low, one, refs[mode])
        _cov_valid(rec, D, low, "lower-rank feeding")
        _cov_between(rec, D, [one, low])
        rec.label(D.dtype, "mode:" + case["rank_mode"], "known_rot" if case["known"] else "integrated_rot",
                  *("rank%d" % r for r in sorted(set(rk))), *_angle_labels(case, D))
        if case["rank_mode"] == "r1" and D.F > 24:
            rec.label("r1:F>24")
        if not _pow2(D.F + 1) and case["grav"] and case["init"] != "default" and len(case["chunks"]) >= 2:
            rec.nt(("ranks", D.F, case["rank_mode"], case["known"], case["grav"], D.dtype, case["init"]))

    def simplify(self, case):
        for c in _common_simplify(case):
            if c["B"] == 1 and c["init"] in ("default", "ctor"):
                yield dict(c, chunks=_fit_chunks(case["chunks"], c["F"]))
        ch = case["chunks"]
        if case["rank_mode"] != "r1":
            for i in range(len(ch) - 1):
                yield dict(case, chunks=ch[:i] + [ch[i] + ch[i + 1]] + ch[i + 2:])

    def valid(self, case):
        return _base_valid(case) and case["B"] == 1 and sum(case["chunks"]) == case["F"] and \
            all(c >= 1 for c in case["chunks"]) and (case["rank_mode"] != "r1" or all(c == 1 for c in case["chunks"])) \
            and case["init"] in ("default", "ctor")

    def size(self, case):
        return case["F"] * 1000 + len(case["chunks"]) * 10


SUBS = [Recursion(), Chunking(), EveryF(), Compositions(), Ranks()]

KNOWN = {COV_KEY: {
    "probe": ("compositions", dict(_BASE, B=1, F=3, dtype="float64", known=False, grav=9.75, init="ctor", seed=0, chunks=[3])),
    "match": lambda sub, case, bucket: bucket.startswith("cov_chunk:order")}}


def selftest():
    rs = np.random.RandomState(5)
    F = 9
    dt = 10.0 ** rs.uniform(-3, 0, F)
    gyro = rs.randn(F, 3)
    acc = rs.randn(F, 3) * 5
    g = np.array([0.0, 0.0, 9.8125])
    q0 = rs.randn(4); q0 /= np.linalg.norm(q0)
    p0, v0 = rs.randn(3), rs.randn(3)
    # (1) second formulation: 3x3 rotation matrices from a Taylor matrix exponential, Horner-free explicit sums
    R0 = R.qrot(q0)
    dR, dv, dp, T = np.eye(3), np.zeros(3), np.zeros(3), 0.0
    ref = RI.preintegrate(dt, gyro, acc, g, q0, p0, v0, mode="post")
    for k in range(F):
        E = R.expm_np(R.skew(gyro[k] * dt[k]))
        a = acc[k] - (R0 @ dR @ E).T @ g
        dp = dp + dv * dt[k] + 0.5 * (dR @ a) * dt[k] ** 2
        dv = dv + (dR @ a) * dt[k]
        dR = dR @ E
        T += dt[k]
        assert np.allclose(R.qrot(ref["rot"][k]), R0 @ dR, atol=1e-13)
        assert np.allclose(ref["vel"][k], v0 + R0 @ dv, atol=1e-12 * ref["sv"][k])
        assert np.allclose(ref["pos"][k], p0 + R0 @ dp + v0 * T, atol=1e-12 * ref["sp"][k])
    # (2) the "pre" gravity reading is the docstring's other form: raw acceleration, gravity added on composition
    a1 = RI.preintegrate(dt, gyro, acc, g, q0, p0, v0, mode="pre")
    a2 = RI.preintegrate_raw_plus_gravity(dt, gyro, acc, g, q0, p0, v0)
    assert np.allclose(a1["vel"], a2["vel"], atol=1e-12 * a1["sv"][-1]) and np.allclose(a1["pos"], a2["pos"], atol=1e-12 * a1["sp"][-1])
    # (3) closed forms: constant world acceleration without rotation, constant rate about one axis
    z = RI.preintegrate(dt, np.zeros((F, 3)), np.tile([1.0, -2.0, 3.0], (F, 1)), np.zeros(3), [0, 0, 0, 1.0], p0, v0)
    Tc = np.cumsum(dt)
    assert np.allclose(z["vel"], v0 + np.outer(Tc, [1.0, -2.0, 3.0]), atol=1e-13)
    assert np.allclose(z["pos"], p0 + np.outer(Tc, v0) + 0.5 * np.outer(Tc ** 2, [1.0, -2.0, 3.0]), atol=1e-13)
    z = RI.preintegrate(dt, np.tile([0.0, 0.0, 0.7], (F, 1)), np.zeros((F, 3)), np.zeros(3), [0, 0, 0, 1.0], p0, v0)
    assert np.allclose(R.qrot(z["rot"][-1]), R.qrot(R.exp_np("so3", np.array([0.0, 0.0, 0.7 * Tc[-1]]))), atol=1e-13)
    # (4) known rotation: gravity removed with the supplied rotation (a different answer from the integrated one)
    q = rs.randn(F, 4); q /= np.linalg.norm(q, axis=1, keepdims=True)
    k1 = RI.preintegrate(dt[:1], gyro[:1], acc[:1], g, q0, p0, v0, rot=q[:1])
    assert np.allclose(k1["vel"][0], v0 + R0 @ ((acc[0] - R.qrot(q[0]).T @ g) * dt[0]), atol=1e-13)
    # (5) the vectorised quaternion routines of vp/ref/imu.py agree with the scalar algebra of vp/ref/lie.py
    for i in range(F):
        assert np.allclose(RI.qrot_n(q)[i], R.qrot(q[i]), atol=1e-15)
        assert np.allclose(RI.qmul_n(q[i], q[(i + 1) % F]), R.qmul(q[i], q[(i + 1) % F]), atol=1e-15)
    for phi in (np.zeros(3), np.array([1e-9, 0, 0]), np.array([3e-5, -4e-5, 1e-5]), np.array([0.3, -0.2, 0.1]), np.array([1.2, 1.0, -1.2])):
        assert np.allclose(RI.so3_exp_n(phi), R.exp_np("so3", phi), atol=1e-15)
    # (6) per-frame rotations beyond pi and 2 pi: the reference Exp against the Taylor matrix exponential (rotations are
    #     compared as matrices throughout, so the quaternion double cover does not matter), and the constant-rate closed form
    for ang in (np.pi - 1e-9, np.pi, np.pi + 1e-9, 3.2, 2 * np.pi, 7.0):
        phi = ang * np.array([0.6, -0.48, 0.64])
        assert np.allclose(RI.qrot_n(RI.so3_exp_n(phi)), R.expm_np(R.skew(phi)), atol=1e-12)
    z = RI.preintegrate(dt, np.outer(6.5 / dt, [0.0, 0.0, 1.0]), np.zeros((F, 3)), np.zeros(3), [0, 0, 0, 1.0], p0, v0)
    for k in range(F):
        c, s_ = np.cos(6.5 * (k + 1)), np.sin(6.5 * (k + 1))
        assert np.allclose(R.qrot(z["rot"][k]), [[c, -s_, 0], [s_, c, 0], [0, 0, 1]], atol=1e-13)
