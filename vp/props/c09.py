"""C09 - kernels match closed forms; correctors preserve the robust gradient and Hessian."""
import math
import contextlib
import numpy as np
import torch
import mpmath as mp
from torch import nn
import pypose.optim.kernel as ppk
import pypose.optim.corrector as ppc
from hypothesis import strategies as st

from ..core import Sub, CaseAbort, _frame_of
from ..ref import kernels as RK
from .. import tu, gen

PROPERTY = "C09"
VAL_C = 16                                              # value tolerance  VAL_C*eps*(|y| + vscale)
RTOL = {"float64": 1e-9, "float32": 2 * math.sqrt(tu.EPS["float32"])}     # correctors (normwise, times cond)
RULE = ("values: kernel class x parameters (delta in [2e-3,1e3], half of them with a 10-bit mantissa so that delta^2 "
        "and sqrt(delta^2) are exact in both dtypes; Tolerant a/|b| in [0.02,49.9]; Scale delta in (0,1]) x tensors of "
        "rank 0..3 (extents 0..3) whose elements are drawn per class {0, tiny, EXACTLY the threshold T (delta^2, "
        "1/delta^2, a), T(1+-2^k eps) k=0..12, T*10^[-4,4], up to 1e12}, float32/float64; oracle = documented closed "
        "form in 40-digit mpmath on the exact input values; |y-ref| <= 16 eps (|ref|+s) with s the size of the "
        "cancelling terms of the documented formula (delta^2; 2 for SoftLOne; 2(a+|b|) for Tolerant; 0 for Arctan/Scale), "
        "finite, k(0)=0 to that tolerance, non-decreasing after sorting (same tolerance), same shape; Huber: autograd "
        "slope == min(1, delta/sqrt(x)) within 16 eps at every element incl. the threshold.  reject: the same tensors "
        "with >= 1 negative element (-tiny .. -1e12, -inf, any position): any exception passes, a returned tensor "
        "fails.  correctors: kernel (7 built-ins; user nn.Modules with rho''>0: x+cx^2/2, expm1(cx), x log1p(x); "
        "rho''=0: x, cx; rho''<0: log1p(cx)/c, sqrt(x+c)-sqrt(c); mixed sign: x+a((x-m)^3+m^3)/3, x+c sin(wx)/w, "
        "x+c relu(x-m)^2/2) x R of shape (...,d), d=1..6, 1..8 rows of classes {0, |R|^2==T exactly, T(1+-2^k eps), "
        "below T, above T, generic 1e-2..30 sqrt(T), tiny} x J=(R.numel(),P) P=1..4 with column scales 1e-2..1e2, called "
        "under torch.no_grad() as optimizer.step does (2/3) or with grad enabled (1/3); "
        "oracle rho', rho'' from the harness's own closed forms (mpmath): J'^T R' == sum_i rho'_i J_i^T R_i for "
        "FastTriggs and Triggs; Triggs per row: J'_i^T J'_i == rho' J_i^T J_i + 2 rho'' J_i^T R_i R_i^T J_i where "
        "rho''>0 and R_i!=0, (R'_i,J'_i) == FastTriggs's elsewhere (rows where the sign of rho'' changes within "
        "x(1+-8 eps) accept either).  Tolerance: normwise rtol*cond_i*scale with rtol=1e-9 (float64), 2 sqrt(eps) "
        "(float32), cond_i = 1+|x rho''/rho'|+parameter sensitivity.  Non-trivial: values/reject input containing a "
        "zero or threshold-exact element (reject: always, classed by the negative entry); corrector case with >= 1 "
        "row in each of {R=0, rho''>0, rho''<=0}.  distinct = (kernel, dtype, element/row class multiset, rank, d, P).")
ASSUMPTIONS = ["kernel parameters in the documented domain (delta>0, a>0, b<0, a/|b|<=50, Scale delta in (0,1])",
               "inputs finite and non-negative (values), |R| <= 30 sqrt(T) (<= 3, 4.4 sqrt(T) for the exp / sine user "
               "kernels so that rho' stays finite and well conditioned)",
               "user kernels are elementwise nn.Modules, twice differentiable by autograd, with rho' >= 0",
               "mpmath elementary functions at 40 digits are trusted; float64 numpy for the J^T R / J^T J sums"]


# ---------------------------------------------------------------------------------------------------
class UserKernel(nn.Module):
    """user-defined kernels, written the way a pypose user would (plain torch ops on the input tensor)"""
    def __init__(self, k, p):
        super().__init__()
        self.k, self.p = k, p

    def forward(self, x):
        k, p = self.k, self.p
        if k == "ident":
            return x
        if k == "lin":
            return p[0] * x
        if k == "quad":
            return x + p[0] * x * x / 2
        if k == "exp":
            return torch.expm1(p[0] * x)
        if k == "xlog1p":
            return x * torch.log1p(x)
        if k == "log1p":
            return torch.log1p(p[0] * x) / p[0]
        if k == "sqrt":
            return (x + p[0]).sqrt() - math.sqrt(p[0])
        if k == "cubic":
            return x + p[0] * ((x - p[1]) ** 3 + p[1] ** 3) / 3
        if k == "sine":
            return x + p[0] * torch.sin(p[1] * x) / p[1]
        if k == "chuber":
            return x + 0.5 * p[0] * torch.clamp(x - p[1], min=0) ** 2
        raise ValueError(k)


def build(spec):
    k, p = spec["k"], [float(v) for v in spec["p"]]
    mod = getattr(ppk, k)(*p) if k in RK.BUILTIN else UserKernel(k, p)
    return mod, RK.Ref(spec)


def _thr(spec):
    return float(RK.Ref(spec).T)


_nice = st.builds(lambda m, e: (512 + m) / 512.0 * 2.0 ** e, st.integers(0, 511), st.integers(-9, 8))
_param = st.one_of(_nice, st.floats(-2.7, 3.0).map(lambda v: 10.0 ** v))
_c = st.floats(-2.0, 2.0).map(lambda v: 10.0 ** v)
_sq = st.builds(lambda m, e: ((32 + m) / 32.0 * 2.0 ** e) ** 2, st.integers(0, 31), st.integers(-5, 4))   # exact squares in [1e-3, 1e3]


@st.composite
def kernel_spec(draw, families):
    fam = draw(st.sampled_from(families))
    if fam == "builtin":
        k = draw(st.sampled_from(RK.BUILTIN))
        if k == "Tolerant":
            a = draw(st.one_of(_sq, st.floats(-3.0, 3.0).map(lambda v: 10.0 ** v)))
            return {"k": k, "p": [a, -a / draw(st.floats(math.log(0.02), math.log(49.9)).map(math.exp))]}
        if k == "Scale":
            return {"k": k, "p": [draw(st.one_of(st.sampled_from((1.0, 0.5, 0.125)), st.floats(1e-3, 1.0)))]}
        return {"k": k, "p": [draw(_param)]}
    k = draw(st.sampled_from(sorted(n for n, f in RK.USER.items() if f == fam)))
    if k in ("ident", "xlog1p"):
        p = []
    elif k in ("lin", "quad", "exp", "log1p", "sqrt"):
        p = [draw(_c)]
    elif k == "sine":
        p = [draw(st.floats(0.05, 0.8)), draw(_c)]
    else:                                  # cubic: a m^2 in [0.05,4]; chuber: c m in [0.05,10]; m an exact square
        m = draw(_sq)
        al = draw(st.floats(0.05, 4.0 if k == "cubic" else 10.0))
        p = [al / m ** 2 if k == "cubic" else al / m, m]
    return {"k": k, "p": p}


@st.composite
def xval(draw, T, dtype):
    """one non-negative kernel input with its class"""
    eps = tu.EPS[dtype]
    c = draw(st.sampled_from(("zero", "tiny", "thr", "near", "near", "gen", "gen", "gen", "huge")))
    m = draw(st.floats(1.0, 2.0, exclude_max=True))
    if c == "zero":
        v = 0.0
    elif c == "tiny":
        v = T * m * 10.0 ** -draw(st.integers(8, 25))
    elif c == "thr":
        v = T
    elif c == "near":
        v = T * (1 + draw(st.sampled_from((1.0, -1.0))) * eps * 2.0 ** draw(st.integers(0, 12)))
    elif c == "gen":
        v = T * 10.0 ** draw(st.floats(-4, 4))
    else:
        v = 10.0 ** draw(st.floats(6, 12))
    return gen.rnd(v, dtype), c


def _shape(draw, extents, max_rank=3):
    return [draw(st.sampled_from(extents)) for _ in range(draw(st.integers(0, max_rank)))]


def _drop(case, key, extra=()):
    """shrinking: drop one element of the flat list `key` (and of the parallel lists), shape becomes 1-D"""
    n = len(case[key])
    for i in range(n):
        if n > 1:
            c = dict(case, shape=[n - 1])
            for kk in (key,) + tuple(extra):
                c[kk] = case[kk][:i] + case[kk][i + 1:]
            yield c


@contextlib.contextmanager
def _sut(rec, what, tag):
    """like rec.sut, with the kernel family in the bucket name (one bucket per kernel kind)"""
    try:
        yield
    except CaseAbort:
        raise
    except Exception as e:  # noqa
        rec.fail("raises:%s:%s:%s@%s" % (what, tag, type(e).__name__, _frame_of(e)),
                 "%s(%s) raised %s: %s" % (what, tag, type(e).__name__, str(e)[:400]))
        raise CaseAbort()


# ---------------------------------------------------------------------------------------------------
class Values(Sub):
    name = "values"
    budget_s = {"quick": 400.0, "thorough": 3000.0}      # wall guard only (~7 ms/case); case counts are the budget
    n = {"quick": 16000, "thorough": 400000}

    def strategy(self, tier):
        @st.composite
        def s(draw):
            spec = draw(kernel_spec(("builtin",)))
            dtype = draw(st.sampled_from(gen.DTYPES))
            shape = _shape(draw, (0, 1, 2, 3, 3))
            T = _thr(spec)
            xs = [draw(xval(T, dtype)) for _ in range(int(np.prod(shape)))]
            return {"kernel": spec, "dtype": dtype, "shape": shape, "x": [v for v, _ in xs], "cls": [c for _, c in xs]}
        return s()

    def oracle(self, case, rec):
        spec, dtype = case["kernel"], case["dtype"]
        k, eps = spec["k"], tu.EPS[dtype]
        key = "%s:%s" % (k, dtype)
        mod, ref = build(spec)
        x = tu.tens(case["x"], dtype).reshape(case["shape"])
        with rec.sut(k):
            y = mod(x)
            slope = None
            if k == "Huber":
                xg = x.clone().requires_grad_(True)
                slope, = torch.autograd.grad(mod(xg).sum(), xg)
        rec.label(k, dtype, *("x:" + c for c in sorted(set(case["cls"]))))
        if k == "Huber" and any(float(v) ** 0.5 == spec["p"][0] and float(v) == spec["p"][0] ** 2 for v in tu.npy(x).reshape(-1)):
            rec.label("huber:sqrt(x)==delta exactly")
        if {"zero", "thr"} & set(case["cls"]):
            rec.nt((k, dtype, tuple(sorted(set(case["cls"]))), len(case["shape"]), min(len(case["x"]), 4)))
        if not rec.check(isinstance(y, torch.Tensor) and y.shape == x.shape, "shape:" + k,
                         lambda: "%s returned %s for input shape %s" % (k, getattr(y, "shape", type(y)), tuple(x.shape))):
            return
        xs, ys = tu.npy(x).reshape(-1).tolist(), tu.npy(y).reshape(-1).tolist()
        floor = 8 * float(np.finfo(np.dtype(dtype)).tiny) * max(1.0, float(ref.T), ref.vscale)
        tols = []
        with mp.workdps(RK.DPS):
            for i, (xv, yv) in enumerate(zip(xs, ys)):
                yr = ref.rho(mp.mpf(float(xv)))
                tol = VAL_C * eps * (float(abs(yr)) + ref.vscale) + floor
                tols.append(tol)
                if not rec.check(math.isfinite(yv), "nonfinite:" + key, "%s(%r) = %r (delta/a,b = %s)" % (k, xv, yv, spec["p"])):
                    return
                err = float(abs(mp.mpf(float(yv)) - yr))
                name = "r_zero" if xv == 0 else "r_value"
                rec.notes[name + ":" + k] = max(rec.notes.get(name + ":" + k, 0), err / tol)
                rec.check(err <= tol, ("zero_at_zero:" if xv == 0 else "value:") + key,
                          lambda: "%s%s(%r) = %r, documented closed form %r (error %.3g > tol %.3g; class %s)"
                          % (k, spec["p"], xv, yv, float(yr), err, tol, case["cls"][i]))
                if slope is not None:
                    sr = float(ref.d1(mp.mpf(float(xv))))
                    se = abs(float(slope.reshape(-1)[i]) - sr)
                    rec.notes["r_slope"] = max(rec.notes.get("r_slope", 0), se / (VAL_C * eps))
                    rec.check(se <= VAL_C * eps, "huber_slope:" + dtype,
                              lambda: "Huber%s slope at %r is %r, closed form min(1,delta/sqrt(x)) = %r"
                              % (spec["p"], xv, float(slope.reshape(-1)[i]), sr))
        order = np.argsort(xs, kind="stable")
        for a, b in zip(order[:-1], order[1:]):
            d = ys[a] - ys[b]
            t = max(tols[a], tols[b])
            rec.notes["r_monotone"] = max(rec.notes.get("r_monotone", 0), d / t)
            rec.check(d <= t, "monotone:" + key, lambda: "%s%s not non-decreasing: k(%r)=%r > k(%r)=%r"
                      % (k, spec["p"], xs[a], ys[a], xs[b], ys[b]))

    def valid(self, case):
        return RK.in_domain(case["kernel"]) and all(0 <= v < math.inf for v in case["x"])

    def simplify(self, case):
        yield from _drop(case, "x", ("cls",))
        if case["dtype"] == "float32":
            yield dict(case, dtype="float64")


class Reject(Sub):
    name = "reject"
    budget_s = {"quick": 400.0, "thorough": 3000.0}      # wall guard only (~7 ms/case); case counts are the budget
    n = {"quick": 3000, "thorough": 60000}

    def strategy(self, tier):
        @st.composite
        def s(draw):
            spec = draw(kernel_spec(("builtin",)))
            dtype = draw(st.sampled_from(gen.DTYPES))
            T = _thr(spec)
            shape = _shape(draw, (1, 2, 3), max_rank=2)
            xs = [draw(xval(T, dtype))[0] for _ in range(int(np.prod(shape)))]
            nc = draw(st.sampled_from(("-tiny", "-eps", "-gen", "-gen", "-huge", "-inf")))
            m = draw(st.floats(1.0, 2.0, exclude_max=True))
            v = {"-tiny": -T * m * 1e-25, "-eps": -T * m * tu.EPS[dtype], "-gen": -T * 10.0 ** draw(st.floats(-3, 3)),
                 "-huge": -m * 1e12, "-inf": -math.inf}[nc]
            j = draw(st.integers(0, len(xs) - 1))
            xs[j] = gen.rnd(v, dtype)
            return {"kernel": spec, "dtype": dtype, "shape": shape, "x": xs, "neg": nc, "pos": j}
        return s()

    def oracle(self, case, rec):
        spec, dtype = case["kernel"], case["dtype"]
        k = spec["k"]
        mod, _ = build(spec)
        x = tu.tens(case["x"], dtype).reshape(case["shape"])
        if not bool((x < 0).any()):
            rec.discard_case("no negative element left")
        n = len(case["x"])
        rec.nt((k, dtype, case.get("neg"), min(n, 4), "first" if case.get("pos") == 0 else "last" if case.get("pos") == n - 1 else "mid"))
        try:
            out = mod(x)
        except Exception as e:       # any exception is a rejection
            rec.label(k, dtype, "rejected:" + type(e).__name__)
            return
        rec.fail("accepts_negative:" + k, "%s%s accepted the negative input %s and returned %s"
                 % (k, spec["p"], case["x"], tu.npy(out).reshape(-1).tolist() if isinstance(out, torch.Tensor) else out))

    def valid(self, case):
        return RK.in_domain(case["kernel"]) and not any(v != v for v in case["x"])

    def simplify(self, case):
        n = len(case["x"])
        for i in range(n):
            if n > 1 and not case["x"][i] < 0:
                yield dict(case, shape=[n - 1], x=case["x"][:i] + case["x"][i + 1:], pos=None)
        if case["dtype"] == "float32":
            yield dict(case, dtype="float64")


# ---------------------------------------------------------------------------------------------------
TMAX = {"exp": 3.0, "sine": 4.4}


class Correctors(Sub):
    name = "correctors"
    budget_s = {"quick": 400.0, "thorough": 3000.0}      # wall guard only (~7 ms/case); case counts are the budget
    n = {"quick": 12000, "thorough": 250000}

    def strategy(self, tier):
        @st.composite
        def s(draw):
            spec = draw(kernel_spec(("builtin", "builtin", "pos", "pos", "mixed", "mixed", "mixed", "lin", "neg")))
            dtype = draw(st.sampled_from(gen.DTYPES))
            eps = tu.EPS[dtype]
            d = draw(st.integers(1, 6))
            mixed = RK.family(spec) == "mixed"
            n = draw(st.integers(3 if mixed else 1, 8))
            shape = draw(st.sampled_from([[n], [1, n], [n, 1]] + [[a, n // a] for a in (2, 3, 4) if n % a == 0 and n > a]
                                         + ([[]] if n == 1 else [])))
            forced = list(draw(st.permutations(("zero", "lo", "hi")))) if mixed and draw(st.booleans()) else []
            r0 = math.sqrt(_thr(spec))
            tmax = TMAX.get(spec["k"], 30.0)
            rows, cls = [], []
            for i in range(n):
                c = forced[i] if i < len(forced) else draw(st.sampled_from(("zero", "thr", "near", "lo", "hi", "hi", "gen", "tiny")))
                v = [0.0] * d
                if c in ("thr", "near"):
                    t = 1.0 if c == "thr" else 1 + draw(st.sampled_from((1.0, -1.0))) * eps * 2.0 ** draw(st.integers(0, 10))
                    v[draw(st.integers(0, d - 1))] = draw(st.sampled_from((1.0, -1.0))) * r0 * t
                elif c != "zero":
                    t = {"lo": draw(st.floats(0.05, 0.95)), "hi": draw(st.floats(1.05, tmax)),
                         "gen": 10.0 ** draw(st.floats(-2.0, math.log10(tmax))), "tiny": 10.0 ** -draw(st.integers(3, 12))}[c]
                    u = [draw(st.floats(-1, 1)) for _ in range(d)]
                    nu = math.sqrt(sum(a * a for a in u))
                    u = [a / nu for a in u] if nu > 1e-3 else [1.0] + [0.0] * (d - 1)
                    v = [r0 * t * a for a in u]
                rows.append(gen.rnd_list(v, dtype)); cls.append(c)
            return {"kernel": spec, "dtype": dtype, "shape": shape, "R": rows, "cls": cls,
                    "P": draw(st.integers(1, 4)), "seed": draw(st.integers(0, 2 ** 31 - 1)),
                    "nograd": draw(st.sampled_from((True, True, False)))}
        return s()

    def oracle(self, case, rec):
        spec, dtype, P = case["kernel"], case["dtype"], case["P"]
        k, fam = spec["k"], RK.family(spec)
        eps, rtol = tu.EPS[dtype], RTOL[dtype]
        tiny = 64 * float(np.finfo(np.dtype(dtype)).tiny)
        mod, ref = build(spec)
        n, d = len(case["R"]), len(case["R"][0])
        R = tu.tens(case["R"], dtype).reshape(list(case["shape"]) + [d])
        rs = np.random.RandomState(case["seed"])
        J = tu.tens((rs.randn(n * d, P) * 10.0 ** rs.uniform(-2, 2, size=(1, P))).tolist(), dtype)
        Rn, Jn = tu.npy(R).reshape(n, d), tu.npy(J).reshape(n, d, P)
        # --- the harness's own rho', rho'' at x_i = |R_i|^2 (exact squares of the dtype values) ---------------
        r1, r2, cond, rcls = np.zeros(n), np.zeros(n), np.zeros(n), []
        with mp.workdps(RK.DPS):
            for i in range(n):
                x = mp.fsum(mp.mpf(float(v)) ** 2 for v in Rn[i])
                d1, d2 = ref.d1(x), ref.d2(x)
                r1[i], r2[i] = float(d1), float(d2)
                cond[i] = 1 + (float(abs(x * d2 / d1)) if d1 > 0 else 0.0) + ref.psens(x)
                rcls.append("zero" if x == 0 else ref.curv_class(x, 8 * eps))
                if x == ref.T:
                    rec.label("row:|R|^2==T exactly")
        xs = (Rn ** 2).sum(1)
        rn, jn = np.sqrt(xs), np.sqrt((Jn ** 2).sum(1))                  # |R_i|, column norms of J_i  (n,P)
        g_ref = np.einsum("i,idp,id->p", r1, Jn, Rn)
        g_tol = rtol * np.einsum("i,i,ip->p", cond * r1, rn, jn) + tiny * (1 + np.einsum("i,ip->p", rn, jn))
        rec.label(k, fam, dtype, *("row:" + c for c in sorted(set(rcls))), *("gen:" + c for c in sorted(set(case["cls"]))))
        if {"zero", "pos", "nonpos"} <= set(rcls):
            rec.nt((k, dtype, tuple(sorted(rcls)), tuple(sorted(set(case["cls"]))), d, P, len(case["shape"])))
        out = {}
        for cname in ("FastTriggs", "Triggs"):
            with _sut(rec, cname, fam if fam != "builtin" else k), torch.set_grad_enabled(not case.get("nograd", True)):
                Rc, Jc = getattr(ppc, cname)(mod)(R=R, J=J)          # optimizer.step calls it under no_grad
            if not rec.check(isinstance(Rc, torch.Tensor) and isinstance(Jc, torch.Tensor) and Rc.shape == R.shape
                             and Jc.shape == J.shape, "shape:" + cname, "%s returned shapes %s, %s for R %s, J %s"
                             % (cname, getattr(Rc, "shape", None), getattr(Jc, "shape", None), tuple(R.shape), tuple(J.shape))):
                return
            Rc, Jc = tu.npy(Rc).reshape(n, d), tu.npy(Jc).reshape(n, d, P)
            out[cname] = (Rc, Jc)
            if not rec.check(np.isfinite(Rc).all() and np.isfinite(Jc).all(), "nonfinite:%s:%s" % (cname, fam),
                             lambda: "%s(%s%s) returned non-finite values for R=%s (row classes %s)"
                             % (cname, k, spec["p"], case["R"], rcls)):
                return
            g = np.einsum("idp,id->p", Jc, Rc)
            err = np.abs(g - g_ref)
            nk = "r_grad:%s:%s" % (cname, dtype)
            rec.notes[nk] = max(rec.notes.get(nk, 0), float((err / g_tol).max()))
            rec.check((err <= g_tol).all(), "gradient:%s:%s:%s" % (cname, fam, dtype),
                      lambda: "%s(%s%s): J'^T R' = %s but sum_i rho'(|R_i|^2) J_i^T R_i = %s (tol %s; rho'=%s, rho''=%s, "
                      "row classes %s)" % (cname, k, spec["p"], g.tolist(), g_ref.tolist(), g_tol.tolist(), r1.tolist(),
                                           r2.tolist(), rcls))
        (Rf, Jf), (Rt, Jt) = out["FastTriggs"], out["Triggs"]
        for i in range(n):
            jf2 = float((Jn[i] ** 2).sum())
            sq = math.sqrt(r1[i])
            eR = float(np.abs(Rt[i] - Rf[i]).max()) / (rtol * cond[i] * sq * rn[i] + tiny * (1 + rn[i]))
            eJ = float(np.abs(Jt[i] - Jf[i]).max()) / (rtol * cond[i] * sq * math.sqrt(jf2) + tiny * (1 + math.sqrt(jf2)))
            H = Jt[i].T @ Jt[i]
            v = Jn[i].T @ Rn[i]
            H_ref = r1[i] * Jn[i].T @ Jn[i] + 2 * r2[i] * np.outer(v, v)
            amp = 1 + 2 * xs[i] * max(r2[i], 0.0) / r1[i] if r1[i] > 0 else 1.0
            eH = float(np.abs(H - H_ref).max()) / (rtol * cond[i] * r1[i] * amp * jf2 + tiny * (1 + jf2))
            if rcls[i] == "pos":
                rec.notes["r_hessian:" + dtype] = max(rec.notes.get("r_hessian:" + dtype, 0), eH)
                rec.check(eH <= 1, "hessian:Triggs:%s:%s" % (fam, dtype),
                          lambda: "Triggs(%s%s) row %d (R_i=%s, rho'=%.6g, rho''=%.6g>0): J'_i^T J'_i = %s, expected rho' J^T J + "
                          "2 rho'' J^T R R^T J = %s (error/tol %.3g)" % (k, spec["p"], i, Rn[i].tolist(), r1[i], r2[i],
                                                                          H.tolist(), H_ref.tolist(), eH))
            elif rcls[i] in ("zero", "nonpos"):
                rec.notes["r_same:" + dtype] = max(rec.notes.get("r_same:" + dtype, 0), eR, eJ)
                rec.check(eR <= 1 and eJ <= 1, "same_as_fast:%s:%s" % (fam, dtype),
                          lambda: "Triggs(%s%s) row %d (R_i=%s, rho''=%.6g, class %s) differs from FastTriggs: R' %s vs %s "
                          "(error/tol %.3g), J' error/tol %.3g" % (k, spec["p"], i, Rn[i].tolist(), r2[i], rcls[i],
                                                                  Rt[i].tolist(), Rf[i].tolist(), eR, eJ))
            else:                   # rho'' changes sign within rounding of x: either form is right
                rec.check(eH <= 1 or (eR <= 1 and eJ <= 1), "ambiguous_row:%s:%s" % (fam, dtype),
                          lambda: "Triggs(%s%s) row %d (R_i=%s): neither the Triggs Hessian (error/tol %.3g) nor FastTriggs "
                          "(%.3g, %.3g)" % (k, spec["p"], i, Rn[i].tolist(), eH, eR, eJ))

    def valid(self, case):
        r0 = math.sqrt(_thr(case["kernel"])) if RK.in_domain(case["kernel"]) else 0.0
        tmax = TMAX.get(case["kernel"]["k"], 30.0) * 1.001
        return r0 > 0 and all(math.sqrt(sum(v * v for v in r)) <= tmax * r0 for r in case["R"])

    def simplify(self, case):
        n, d = len(case["R"]), len(case["R"][0])
        for i in range(n):
            if n > 1:
                yield dict(case, shape=[n - 1], R=case["R"][:i] + case["R"][i + 1:], cls=case["cls"][:i] + case["cls"][i + 1:])
        if len(case["shape"]) > 1:
            yield dict(case, shape=[n])
        if case["P"] > 1:
            yield dict(case, P=1)
        for j in range(d):
            if d > 1:
                yield dict(case, R=[r[:j] + r[j + 1:] for r in case["R"]])
        if case["dtype"] == "float32":
            yield dict(case, dtype="float64")
        if case["seed"] != 0:
            yield dict(case, seed=0)


SUBS = [Values(), Reject(), Correctors()]

# Triggs.compute_grads differentiates rho' again with autograd.grad; for a kernel that is linear in x (built-in
# Scale, user identity / c*x) rho' does not depend on x and autograd raises instead of returning rho''=0.
_F5C_CASE = {"kernel": {"k": "Scale", "p": [0.5]}, "dtype": "float64", "shape": [1], "R": [[1.0]], "cls": ["thr"],
             "P": 1, "seed": 0}
KNOWN = {"F5c": {"probe": ("correctors", _F5C_CASE),
                 "match": lambda sub, case, bucket: sub == "correctors" and RK.family(case["kernel"]) in ("lin", "builtin")
                 and case["kernel"]["k"] in ("Scale", "ident", "lin") and bucket.startswith("raises:Triggs:")
                 and bucket.endswith("RuntimeError@corrector.py:compute_grads")}}


def selftest():
    RK.selftest()
    # the torch user kernels are the functions the reference describes (values and autograd derivatives)
    with mp.workdps(RK.DPS):
        for k, fam in RK.USER.items():
            p = {"ident": [], "xlog1p": [], "sine": [0.6, 2.0], "cubic": [0.4, 1.5], "chuber": [0.8, 1.25]}.get(k, [0.7])
            mod, ref = build({"k": k, "p": p})
            x = torch.tensor([0.0, 0.3, 1.1, 2.9], dtype=torch.float64, requires_grad=True)
            y = mod(x)
            g1, = torch.autograd.grad(y.sum(), x, create_graph=True)
            g2 = torch.autograd.grad(g1.sum(), x)[0] if g1.requires_grad else torch.zeros_like(x)
            for i, xv in enumerate(x.tolist()):
                want = [float(f(mp.mpf(xv))) for f in (ref.rho, ref.d1, ref.d2)]
                got = [float(y[i]), float(g1[i]), float(g2[i])]
                assert np.allclose(got, want, rtol=1e-12, atol=1e-13), (k, xv, got, want)
            cl = {ref.curv_class(mp.mpf(v), 1e-15) for v in (0.3, 1.1, 2.9)}
            assert cl == {"pos": {"pos"}, "lin": {"nonpos"}, "neg": {"nonpos"}, "mixed": {"pos", "nonpos"}}[fam], (k, cl)
