"""C09 - kernels match closed forms; correctors preserve the robust gradient and Hessian."""
import math
import contextlib
import numpy as np
import torch
import mpmath as mp
from torch import nn
import pypose.optim.kernel as ppk
import pypose.optim.corrector as ppc
from hypothesis import strategies as st

from ..core import Sub, CaseAbort, _frame_of
from ..ref import kernels as RK
from .. import tu, gen

PROPERTY = "C09"
VAL_C = 16                                              # value tolerance  VAL_C*eps*(|y| + vscale)
MONO_C = 4                                              # monotonicity on separated pairs: MONO_C*eps*(max|y| + vscale)
MONO_GAP = 1e-3                                         # ... pairs x < y with y >= x(1 + MONO_GAP)
# Corrector tolerances: every constant multiplies eps*cond_i (cond_i = 1 + |x rho''/rho'| + parameter sensitivity >= 3) and the
# natural size of the quantity; they come from counting roundings (u = eps/2) in what the correctors compute:
#   x^ = fl(sum R^2): rel. error <= d u <= 3 eps (d <= 6); g1^ = rho'(x^) evaluated by autograd in the dtype: x^ contributes
#   |x rho''/rho'| 3 eps, the rounding of the parameters to the dtype psens*eps/2, the <= 8 operations of the derivative
#   formula 4 eps (worst amplification 4: 1 + c cos(wx), c <= 0.8)  ->  rel. error of g1^ <= 4 cond eps; sqrt halves it.
#   gradient  J'^T R' = g1^ (J^T R): + 2 u for the two scalings, + (d + 6) u for Triggs' (I - alpha R R^T/x) J and 1/(1-alpha)
#   (alpha itself cancels: J'^T R' = rho'/(1-alpha) J^T (I - alpha P) R = rho' J^T R for ANY alpha)   -> <= 7 cond eps
#   Triggs == FastTriggs rows: both sides sqrt(g1^) R, each (2 cond + 1) eps from sqrt(rho') R                 -> <= 5 cond eps
#   Hessian  J'^T J' = g1^ J^T J + g1^ (s^ - 1)/x v v^T,  s^ = 1 + 2 x^ g2^/g1^:  (4 cond + 5 + d/2 + 4) eps on rho' amp |J|^2
#   (amp = 1 + 2 x rho''/rho' = (1-alpha)^2), plus the error of g2^ itself, which is NOT relative: see D2 below  -> <= 14 cond eps
C_G, C_S, C_H = 32, 16, 32
# rho'' as the dtype sees it: rho''(x(1 +- T_X eps)) (x^ and the rounded parameters w, m inside sin(w x), x - m) plus the
# cancellation noise C_N eps d2noise(x) of the twice-differentiated formula (measured: <= 1 eps d2noise for Tolerant)
T_X, C_N = 8, 8
# Finding F23 (found here, repaired in /repo by evaluating the kernel with softplus): in float32, autograd's second derivative of Tolerant's documented formula
# b log(1 + exp((x-a)/b)) underflows/overflows in an intermediate (b/(1+E)^2 goes subnormal once |b| exp(-2(a-x)/|b|) <
# 2^-126, i.e. (a-x)/|b| >~ 38..45 - inside the stated a/|b| <= 50) and rho'' comes out as garbage of either sign and of size
# up to 1/|b| (true value -1e-20); Triggs then takes the rho''>0 branch and does not coincide with FastTriggs.  While the key
# was listed below those rows were labelled and only their gradient was asserted; the set is empty now: they are asserted.
KNOWN_OPEN = set()      # tolerant_f32_rho2_underflow: known_findings F23, repaired in /repo (b4656c4) - asserted
RULE = ("values: kernel class x parameters (delta in [2e-3,1e3], half of them with a 10-bit mantissa so that delta^2 "
        "and sqrt(delta^2) are exact in both dtypes; Tolerant a/|b| in [1e-3,50] incl. exactly 50; Scale delta in (0,1]) x tensors of "
        "rank 0..3 (extents 0..3) whose elements are drawn per class {0, tiny, EXACTLY the threshold T (delta^2, "
        "1/delta^2, a), T(1+-2^k eps) k=0..12, T*10^[-4,4], up to 1e12, the previous element x (1+10^[-3,0.5])}, float32/float64; oracle = documented closed "
        "form in 40-digit mpmath on the exact input values; |y-ref| <= 16 eps (|ref|+s) with s the size of the "
        "cancelling terms of the documented formula (delta^2; 2 for SoftLOne; 2(a+|b|) for Tolerant; 0 for Arctan/Scale), "
        "finite, k(0)=0 to that tolerance, same shape; non-decreasing: adjacent elements after sorting (value tolerance) and "
        "every pair x<y with y>=x(1+1e-3) within 4 eps (max|k|+s) (two faithfully rounded library calls); Huber: autograd "
        "slope == min(1, delta/sqrt(x)) within 16 eps at every element incl. the threshold.  reject: the same tensors "
        "with >= 1 negative element (-tiny .. -1e12, -inf, any position): AssertionError (what the kernels raise) or "
        "ValueError passes; any other exception type or a returned tensor fails.  correctors: kernel (7 built-ins; user "
        "nn.Modules with rho''>0: x+cx^2/2, expm1(cx), x log1p(x); "
        "rho''=0: x, cx; rho''<0: log1p(cx)/c, sqrt(x+c)-sqrt(c); mixed sign: x+a((x-m)^3+m^3)/3, x+c sin(wx)/w, "
        "x+c relu(x-m)^2/2) x R of shape (...,d), d=1..6, 1..8 rows (4% of quick / 10% of thorough cases: 9..16 / 9..40) of "
        "classes {0, |R|^2==T exactly, T(1+-2^k eps), "
        "below T, above T, generic 1e-2..30 sqrt(T), tiny} x J=(R.numel(),P) P=1..4 with column scales 1e-2..1e2, dense (~70% as drawn) or "
        "with zero row blocks / zero scalar rows / a duplicated column (rank deficient) / a zero column, called "
        "under torch.no_grad() as optimizer.step does (2/3) or with grad enabled (1/3); "
        "oracle rho', rho'' from the harness's own closed forms (mpmath): J'^T R' == sum_i rho'_i J_i^T R_i for "
        "FastTriggs and Triggs; Triggs per row: J'_i^T J'_i == rho' J_i^T J_i + 2 rho'' J_i^T R_i R_i^T J_i where "
        "rho''>0 and R_i!=0, (R'_i,J'_i) == FastTriggs's where rho''<=0 or R_i=0; rows where the sign of rho'' is not decided "
        "in the dtype (it changes within x(1+-8 eps), or |rho''| <= 8 eps * the cancelling terms of the twice-differentiated "
        "formula: Tolerant with exp(-(a-x)/|b|) < 16 eps) must have the Triggs Hessian for SOME rho'' in [0, max over that range].  "
        "Tolerances: normwise C eps cond_i scale with C = 32 (gradient), 16 (rows equal to FastTriggs), 32 (Hessian, plus the "
        "spread of rho'' over x(1+-8 eps)), cond_i = 1+|x rho''/rho'|+parameter sensitivity (derivation at the constants).  "
        "descent: a linear residual model (1 or 2 residual blocks, (n,d) each) with a capturing solver inside pp.optim.GN / LM, "
        "kernel single or one per block, corrector auto / FastTriggs / Triggs / mixed per block: the solved system's J'^T R' "
        "(GN: -A^T b, LM: -b) == sum rho' J^T R (harness), autograd gradient of optimizer.model.loss == 2 J'^T R', and the loss "
        "step() returns == sum_i rho(|R_i|^2) (harness closed forms).  Non-trivial: values/reject input containing a "
        "zero or threshold-exact element (reject: always, classed by the negative entry); corrector / descent case with >= 1 "
        "row in each of {R=0, rho''>0, rho''<=0}.  distinct = (kernel, dtype, element/row class multiset, rank, d, P).")
ASSUMPTIONS = ["kernel parameters in the documented domain (delta>0, a>0, b<0, a/|b|<=50, Scale delta in (0,1])",
               "inputs finite and non-negative (values), |R| <= 30 sqrt(T) (<= 3, 4.4 sqrt(T) for the exp / sine user "
               "kernels so that rho' stays finite and well conditioned)",
               "user kernels are elementwise nn.Modules, twice differentiable by autograd, with rho' >= 0",
               "mpmath elementary functions at 40 digits are trusted; float64 numpy for the J^T R / J^T J sums",
               "torch's exp/log/atan are faithfully rounded (<= 1 ulp), sqrt correctly rounded (monotonicity tolerance)",
               "descent: torch.autograd.functional / pypose modjac return the exact Jacobian M of the linear model M theta",
               "float32 Triggs(Tolerant) rows with |b| exp(-2(a-x)/|b|) < 4*2^-126 (finding F23, repaired in /repo) are asserted like all others"]


# ---------------------------------------------------------------------------------------------------
class UserKernel(nn.Module):
    """user-defined kernels, written the way a pypose user would (plain torch ops on the input tensor)"""
    def __init__(self, k, p):
        super().__init__()
        self.k, self.p = k, p

    def forward(self, x):
        k, p = self.k, self.p
        if k == "ident":
            return x
        if k == "lin":
            return p[0] * x
        if k == "quad":
            return x + p[0] * x * x / 2
        if k == "exp":
            return torch.expm1(p[0] * x)
        if k == "xlog1p":
            return x * torch.log1p(x)
        if k == "log1p":
            return torch.log1p(p[0] * x) / p[0]
        if k == "sqrt":
            return (x + p[0]).sqrt() - math.sqrt(p[0])
        if k == "cubic":
            return x + p[0] * ((x - p[1]) ** 3 + p[1] ** 3) / 3
        if k == "sine":
            return x + p[0] * torch.sin(p[1] * x) / p[1]
        if k == "chuber":
            return x + 0.5 * p[0] * torch.clamp(x - p[1], min=0) ** 2
        raise ValueError(k)


def build(spec):
    k, p = spec["k"], [float(v) for v in spec["p"]]
    mod = getattr(ppk, k)(*p) if k in RK.BUILTIN else UserKernel(k, p)
    return mod, RK.Ref(spec)


def _thr(spec):
    return float(RK.Ref(spec).T)


_nice = st.builds(lambda m, e: (512 + m) / 512.0 * 2.0 ** e, st.integers(0, 511), st.integers(-9, 8))
_param = st.one_of(_nice, st.floats(-2.7, 3.0).map(lambda v: 10.0 ** v))
_c = st.floats(-2.0, 2.0).map(lambda v: 10.0 ** v)
_sq = st.builds(lambda m, e: ((32 + m) / 32.0 * 2.0 ** e) ** 2, st.integers(0, 31), st.integers(-5, 4))   # exact squares in [1e-3, 1e3]


@st.composite
def kernel_spec(draw, families):
    fam = draw(st.sampled_from(families))
    if fam == "builtin":
        k = draw(st.sampled_from(RK.BUILTIN))
        if k == "Tolerant":
            a = draw(st.one_of(_sq, st.floats(-3.0, 3.0).map(lambda v: 10.0 ** v)))
            ratio = draw(st.one_of(st.floats(math.log(1e-3), math.log(50.0)).map(math.exp), st.floats(math.log(0.02), math.log(50.0)).map(math.exp),
                                   st.sampled_from((50.0, 49.0, 44.0, 40.0, 32.0, 1.0))))
            return {"k": k, "p": [a, -a / min(ratio, 50.0)]}
        if k == "Scale":
            return {"k": k, "p": [draw(st.one_of(st.sampled_from((1.0, 0.5, 0.125)), st.floats(1e-3, 1.0)))]}
        return {"k": k, "p": [draw(_param)]}
    k = draw(st.sampled_from(sorted(n for n, f in RK.USER.items() if f == fam)))
    if k in ("ident", "xlog1p"):
        p = []
    elif k in ("lin", "quad", "exp", "log1p", "sqrt"):
        p = [draw(_c)]
    elif k == "sine":
        p = [draw(st.floats(0.05, 0.8)), draw(_c)]
    else:                                  # cubic: a m^2 in [0.05,4]; chuber: c m in [0.05,10]; m an exact square
        m = draw(_sq)
        al = draw(st.floats(0.05, 4.0 if k == "cubic" else 10.0))
        p = [al / m ** 2 if k == "cubic" else al / m, m]
    return {"k": k, "p": p}


@st.composite
def xval(draw, T, dtype):
    """one non-negative kernel input with its class"""
    eps = tu.EPS[dtype]
    c = draw(st.sampled_from(("zero", "tiny", "thr", "near", "near", "gen", "gen", "gen", "huge")))
    m = draw(st.floats(1.0, 2.0, exclude_max=True))
    if c == "zero":
        v = 0.0
    elif c == "tiny":
        v = T * m * 10.0 ** -draw(st.integers(8, 25))
    elif c == "thr":
        v = T
    elif c == "near":
        v = T * (1 + draw(st.sampled_from((1.0, -1.0))) * eps * 2.0 ** draw(st.integers(0, 12)))
    elif c == "gen":
        v = T * 10.0 ** draw(st.floats(-4, 4))
    else:
        v = 10.0 ** draw(st.floats(6, 12))
    return gen.rnd(v, dtype), c


def _shape(draw, extents, max_rank=3):
    return [draw(st.sampled_from(extents)) for _ in range(draw(st.integers(0, max_rank)))]


def _drop(case, key, extra=()):
    """shrinking: drop one element of the flat list `key` (and of the parallel lists), shape becomes 1-D"""
    n = len(case[key])
    for i in range(n):
        if n > 1:
            c = dict(case, shape=[n - 1])
            for kk in (key,) + tuple(extra):
                c[kk] = case[kk][:i] + case[kk][i + 1:]
            yield c


@contextlib.contextmanager
def _sut(rec, what, tag):
    """like rec.sut, with the kernel family in the bucket name (one bucket per kernel kind)"""
    try:
        yield
    except CaseAbort:
        raise
    except Exception as e:  # noqa
        rec.fail("raises:%s:%s:%s@%s" % (what, tag, type(e).__name__, _frame_of(e)),
                 "%s(%s) raised %s: %s" % (what, tag, type(e).__name__, str(e)[:400]))
        raise CaseAbort()


# ---------------------------------------------------------------------------------------------------
class Values(Sub):
    name = "values"
    budget_s = {"quick": 400.0, "thorough": 3000.0}      # wall guard only (~7 ms/case); case counts are the budget
    n = {"quick": 16000, "thorough": 400000}

    def strategy(self, tier):
        @st.composite
        def s(draw):
            spec = draw(kernel_spec(("builtin",)))
            dtype = draw(st.sampled_from(gen.DTYPES))
            shape = _shape(draw, (0, 1, 2, 3, 3))
            T = _thr(spec)
            xs = []
            for _ in range(int(np.prod(shape))):
                v, c = draw(xval(T, dtype))
                if xs and 0 < xs[-1][0] < 1e12 and draw(st.integers(0, 7)) == 0:
                    # "sep": a moderately separated partner (relative gap 1e-3..3) of the previous element, wherever that lies -
                    # in the flat parts of the kernels the monotonicity clause is the only one that sees an O(eps) defect
                    v, c = gen.rnd(xs[-1][0] * (1 + 10.0 ** draw(st.floats(-3.0, 0.5))), dtype), "sep"
                xs.append((v, c))
            return {"kernel": spec, "dtype": dtype, "shape": shape, "x": [v for v, _ in xs], "cls": [c for _, c in xs]}
        return s()

    def oracle(self, case, rec):
        spec, dtype = case["kernel"], case["dtype"]
        k, eps = spec["k"], tu.EPS[dtype]
        key = "%s:%s" % (k, dtype)
        mod, ref = build(spec)
        x = tu.tens(case["x"], dtype).reshape(case["shape"])
        with rec.sut(k):
            y = mod(x)
            slope = None
            if k == "Huber":
                xg = x.clone().requires_grad_(True)
                slope, = torch.autograd.grad(mod(xg).sum(), xg)
        rec.label(k, dtype, *("x:" + c for c in sorted(set(case["cls"]))))
        if k == "Tolerant":
            ratio = spec["p"][0] / -spec["p"][1]
            rec.label("tolerant:a/|b|<0.02" if ratio < 0.02 else "tolerant:a/|b|>=49.9" if ratio >= 49.9 else "tolerant:a/|b| in [0.02,49.9)")
        if k == "Huber" and any(float(v) ** 0.5 == spec["p"][0] and float(v) == spec["p"][0] ** 2 for v in tu.npy(x).reshape(-1)):
            rec.label("huber:sqrt(x)==delta exactly")
        if {"zero", "thr"} & set(case["cls"]):
            rec.nt((k, dtype, tuple(sorted(set(case["cls"]))), len(case["shape"]), min(len(case["x"]), 4)))
        if not rec.check(isinstance(y, torch.Tensor) and y.shape == x.shape, "shape:" + k,
                         lambda: "%s returned %s for input shape %s" % (k, getattr(y, "shape", type(y)), tuple(x.shape))):
            return
        xs, ys = tu.npy(x).reshape(-1).tolist(), tu.npy(y).reshape(-1).tolist()
        floor = 8 * float(np.finfo(np.dtype(dtype)).tiny) * max(1.0, float(ref.T), ref.vscale)
        tols = []
        with mp.workdps(RK.DPS):
            for i, (xv, yv) in enumerate(zip(xs, ys)):
                yr = ref.rho(mp.mpf(float(xv)))
                tol = VAL_C * eps * (float(abs(yr)) + ref.vscale) + floor
                tols.append(tol)
                if not rec.check(math.isfinite(yv), "nonfinite:" + key, "%s(%r) = %r (delta/a,b = %s)" % (k, xv, yv, spec["p"])):
                    return
                err = float(abs(mp.mpf(float(yv)) - yr))
                name = "r_zero" if xv == 0 else "r_value"
                rec.notes[name + ":" + k] = max(rec.notes.get(name + ":" + k, 0), err / tol)
                rec.check(err <= tol, ("zero_at_zero:" if xv == 0 else "value:") + key,
                          lambda: "%s%s(%r) = %r, documented closed form %r (error %.3g > tol %.3g; class %s)"
                          % (k, spec["p"], xv, yv, float(yr), err, tol, case["cls"][i]))
                if slope is not None:
                    sr = float(ref.d1(mp.mpf(float(xv))))
                    se = abs(float(slope.reshape(-1)[i]) - sr)
                    rec.notes["r_slope"] = max(rec.notes.get("r_slope", 0), se / (VAL_C * eps))
                    rec.check(se <= VAL_C * eps, "huber_slope:" + dtype,
                              lambda: "Huber%s slope at %r is %r, closed form min(1,delta/sqrt(x)) = %r"
                              % (spec["p"], xv, float(slope.reshape(-1)[i]), sr))
        order = np.argsort(xs, kind="stable")
        for a, b in zip(order[:-1], order[1:]):
            d = ys[a] - ys[b]
            t = max(tols[a], tols[b])
            rec.notes["r_monotone"] = max(rec.notes.get("r_monotone", 0), d / t)
            rec.check(d <= t, "monotone:" + key, lambda: "%s%s not non-decreasing: k(%r)=%r > k(%r)=%r"
                      % (k, spec["p"], xs[a], ys[a], xs[b], ys[b]))
        # well separated pairs x < y, y >= x(1+1e-3): the value tolerance (16 eps of the cancelling terms, per value) would make
        # this clause vacuous; what the documented formula can lose between two evaluations is the non-monotonicity of its
        # library calls: exp / log / atan are faithful (<= 1 ulp of THEIR result, i.e. eps(|k| + s) after the final subtraction),
        # everything else (fl(+,-,*,/), sqrt) is monotone; two evaluations -> 2 eps (|k| + s); MONO_C = 4.
        npairs = 0
        for ia in range(len(order)):
            a = order[ia]
            for b in order[ia + 1:]:
                if not (xs[b] > xs[a] and xs[b] >= xs[a] * (1 + MONO_GAP)):
                    continue
                npairs += 1
                d = ys[a] - ys[b]
                t = MONO_C * eps * (max(abs(ys[a]), abs(ys[b])) + ref.vscale) + floor
                rec.notes["r_monotone_sep"] = max(rec.notes.get("r_monotone_sep", 0), d / t)
                rec.check(d <= t, "monotone_separated:" + key, lambda: "%s%s decreases between well separated inputs: k(%r)=%r > "
                          "k(%r)=%r (difference %.3g > %.3g = 4 eps (max|k| + s))" % (k, spec["p"], xs[a], ys[a], xs[b], ys[b], d, t))
        if npairs:
            rec.label("monotone:separated pairs")

    def valid(self, case):
        return RK.in_domain(case["kernel"]) and all(0 <= v < math.inf for v in case["x"])

    def simplify(self, case):
        yield from _drop(case, "x", ("cls",))
        if case["dtype"] == "float32":
            yield dict(case, dtype="float64")


REJECTIONS = (AssertionError, ValueError, RuntimeError, ArithmeticError)   # kernel.py: `assert torch.all(input >= 0), ...`; the others = the same
# check spelled `raise ...` (the statement says "rejects", not how); TypeError / IndexError / AttributeError ... are crashes, not input checks


class Reject(Sub):
    name = "reject"
    budget_s = {"quick": 400.0, "thorough": 3000.0}      # wall guard only (~7 ms/case); case counts are the budget
    n = {"quick": 3000, "thorough": 60000}

    def strategy(self, tier):
        @st.composite
        def s(draw):
            spec = draw(kernel_spec(("builtin",)))
            dtype = draw(st.sampled_from(gen.DTYPES))
            T = _thr(spec)
            shape = _shape(draw, (1, 2, 3), max_rank=2)
            xs = [draw(xval(T, dtype))[0] for _ in range(int(np.prod(shape)))]
            nc = draw(st.sampled_from(("-tiny", "-eps", "-gen", "-gen", "-huge", "-inf")))
            m = draw(st.floats(1.0, 2.0, exclude_max=True))
            v = {"-tiny": -T * m * 1e-25, "-eps": -T * m * tu.EPS[dtype], "-gen": -T * 10.0 ** draw(st.floats(-3, 3)),
                 "-huge": -m * 1e12, "-inf": -math.inf}[nc]
            j = draw(st.integers(0, len(xs) - 1))
            xs[j] = gen.rnd(v, dtype)
            return {"kernel": spec, "dtype": dtype, "shape": shape, "x": xs, "neg": nc, "pos": j}
        return s()

    def oracle(self, case, rec):
        spec, dtype = case["kernel"], case["dtype"]
        k = spec["k"]
        mod, _ = build(spec)
        x = tu.tens(case["x"], dtype).reshape(case["shape"])
        if not bool((x < 0).any()):
            rec.discard_case("no negative element left")
        n = len(case["x"])
        rec.nt((k, dtype, case.get("neg"), min(n, 4), "first" if case.get("pos") == 0 else "last" if case.get("pos") == n - 1 else "mid"))
        # the kernel object may have a past: for every other case it was first used on a valid (non-negative) input - "rejects negative
        # input" holds for every call, not only for the first one of an object (a check that is switched off after the first pass would
        # be invisible otherwise - seed C09g)
        if len(case["x"]) % 2 == 0:
            with _sut(rec, "kernel on valid input before the negative one", k):
                mod(x.abs())
            rec.label("kernel_used_before")
        try:
            out = mod(x)
        except REJECTIONS as e:      # the kernels' own input check (assert ... 'input has to be non-negative')
            rec.label(k, dtype, "rejected:" + type(e).__name__)
            return
        except Exception as e:  # noqa  - an incidental error (TypeError, RuntimeError, IndexError ...) is a crash, not a rejection
            rec.fail("rejects_with:%s:%s@%s" % (k, type(e).__name__, _frame_of(e)),
                     "%s%s on the negative input %s raised %s (%s) instead of rejecting it with its input check "
                     "(AssertionError 'input has to be non-negative')" % (k, spec["p"], case["x"], type(e).__name__, str(e)[:200]))
            return
        rec.fail("accepts_negative:" + k, "%s%s accepted the negative input %s and returned %s"
                 % (k, spec["p"], case["x"], tu.npy(out).reshape(-1).tolist() if isinstance(out, torch.Tensor) else out))

    def valid(self, case):
        return RK.in_domain(case["kernel"]) and not any(v != v for v in case["x"])

    def simplify(self, case):
        n = len(case["x"])
        for i in range(n):
            if n > 1 and not case["x"][i] < 0:
                yield dict(case, shape=[n - 1], x=case["x"][:i] + case["x"][i + 1:], pos=None)
        if case["dtype"] == "float32":
            yield dict(case, dtype="float64")


# ---------------------------------------------------------------------------------------------------
TMAX = {"exp": 3.0, "sine": 4.4}
ROWCLS = ("zero", "thr", "near", "lo", "hi", "hi", "gen", "tiny")
JMODES = ("dense",) * 11 + ("zero_blocks", "zero_blocks", "zero_lines", "zero_lines", "dup_col", "dup_col", "zero_col", "zero_col", "zero_all")
TINY32 = float(np.finfo(np.float32).tiny)


def _draw_rows(draw, spec, dtype, n, d, forced=()):
    """n residual rows of dimension d (exact dtype values) drawn per class around the kernel's threshold sqrt(T)"""
    eps = tu.EPS[dtype]
    r0 = math.sqrt(_thr(spec))
    tmax = TMAX.get(spec["k"], 30.0)
    rows, cls = [], []
    for i in range(n):
        c = forced[i] if i < len(forced) else draw(st.sampled_from(ROWCLS))
        v = [0.0] * d
        if c in ("thr", "near"):
            t = 1.0 if c == "thr" else 1 + draw(st.sampled_from((1.0, -1.0))) * eps * 2.0 ** draw(st.integers(0, 10))
            v[draw(st.integers(0, d - 1))] = draw(st.sampled_from((1.0, -1.0))) * r0 * t
        elif c != "zero":
            t = {"lo": draw(st.floats(0.05, 0.95)), "hi": draw(st.floats(1.05, tmax)),
                 "gen": 10.0 ** draw(st.floats(-2.0, math.log10(tmax))), "tiny": 10.0 ** -draw(st.integers(3, 12))}[c]
            u = [draw(st.floats(-1, 1)) for _ in range(d)]
            nu = math.sqrt(sum(a * a for a in u))
            u = [a / nu for a in u] if nu > 1e-3 else [1.0] + [0.0] * (d - 1)
            v = [r0 * t * a for a in u]
        rows.append(gen.rnd_list(v, dtype)); cls.append(c)
    return rows, cls


def _shapes(n):
    return [[n], [1, n], [n, 1]] + [[a, n // a] for a in (2, 3, 4, 5) if n % a == 0 and n > a] + ([[]] if n == 1 else []) \
        + ([[2, 2, n // 4]] if n % 4 == 0 and n > 4 else [])


def row_refs(ref, spec, Rn, dtype):
    """Per row of Rn (n,d; exact dtype values) at x_i = |R_i|^2 (exact, mpmath): the harness's rho, rho', rho'', cond_i,
    the interval [lo,hi] of the rho'' a dtype evaluation may see, and the class of the row:
      zero | pos (lo > 0) | nonpos (hi <= 0) | ambig (sign not decided in the dtype; `why` = x: rho'' changes sign within
      x(1 +- T_X eps); noise: |rho''| below the cancellation noise of the twice-differentiated formula) | open (KNOWN_OPEN)"""
    eps, n = tu.EPS[dtype], len(Rn)
    o = {k: np.zeros(n) for k in ("x", "rho", "r1", "r2", "cond", "lo", "hi")}
    o["cls"], o["why"], o["thr_exact"] = [], [], 0
    with mp.workdps(RK.DPS):
        for i in range(n):
            x = mp.fsum(mp.mpf(float(v)) ** 2 for v in Rn[i])
            d1, d2 = ref.d1(x), ref.d2(x)
            o["x"][i], o["rho"][i], o["r1"][i], o["r2"][i] = float(x), float(ref.rho(x)), float(d1), float(d2)
            o["cond"][i] = 1 + (float(abs(x * d2 / d1)) if d1 > 0 else 0.0) + ref.psens(x)
            o["thr_exact"] += int(x == ref.T)
            if x == 0:
                o["cls"].append("zero"); o["why"].append(""); o["lo"][i] = o["hi"][i] = float(d2)
                continue
            vlo, vhi = ref.d2_span(x, T_X * eps)
            nz = mp.mpf(C_N * eps) * mp.mpf(ref.d2noise(x))
            lo, hi = vlo - nz, vhi + nz
            o["lo"][i], o["hi"][i] = float(lo), float(hi)
            c = "pos" if lo > 0 else "nonpos" if hi <= 0 else "ambig"
            why = ("x" if not (vlo > 0 or vhi <= 0) else "noise") if c == "ambig" else ""
            if spec["k"] == "Tolerant" and dtype == "float32":
                a, b = ref.p
                if abs(b) * mp.exp(-2 * (a - x) / abs(b)) < 4 * TINY32:
                    c, why = "open", "tolerant_f32_rho2_underflow"
            o["cls"].append(c); o["why"].append(why)
    return o


def grad_ref(rr, Rn, Jn, eps, tiny, extra=0.0):
    """sum_i rho'_i J_i^T R_i in float64 and its tolerance  (C_G cond_i + extra) eps rho'_i |R_i| |J_i[:,p]|  (normwise per row)"""
    rn, jn = np.sqrt((Rn ** 2).sum(1)), np.sqrt((Jn ** 2).sum(1))           # |R_i|, column norms of J_i  (n,P)
    g = np.einsum("i,idp,id->p", rr["r1"], Jn, Rn)
    tol = eps * np.einsum("i,i,ip->p", (C_G * rr["cond"] + extra) * rr["r1"], rn, jn) + tiny * (1 + np.einsum("i,ip->p", rn, jn))
    return g, tol


class Correctors(Sub):
    name = "correctors"
    budget_s = {"quick": 400.0, "thorough": 3000.0}      # wall guard only (~7 ms/case); case counts are the budget
    n = {"quick": 12000, "thorough": 250000}

    def strategy(self, tier):
        @st.composite
        def s(draw):
            spec = draw(kernel_spec(("builtin", "builtin", "pos", "pos", "mixed", "mixed", "mixed", "lin", "neg")))
            dtype = draw(st.sampled_from(gen.DTYPES))
            d = draw(st.integers(1, 6))
            mixed = RK.family(spec) == "mixed"
            if draw(st.integers(0, 99)) < (4 if tier == "quick" else 10):          # many rows: a small share (mpmath per row)
                n = draw(st.integers(9, 16 if tier == "quick" else 40))
            else:
                n = draw(st.integers(3 if mixed else 1, 8))
            shape = draw(st.sampled_from(_shapes(n)))
            forced = list(draw(st.permutations(("zero", "lo", "hi")))) if mixed and draw(st.booleans()) else []
            rows, cls = _draw_rows(draw, spec, dtype, n, d, forced)
            return {"kernel": spec, "dtype": dtype, "shape": shape, "R": rows, "cls": cls,
                    "P": draw(st.integers(1, 4)), "seed": draw(st.integers(0, 2 ** 31 - 1)),
                    "nograd": draw(st.sampled_from((True, True, False))), "jmode": JMODES[draw(st.integers(0, len(JMODES) - 1))]}
        return s()

    @staticmethod
    def jacobian(case, n, d):
        """J (n*d, P) as float64 numpy, a pure function of the case: dense Gaussian with column scales 1e-2..1e2, then the
        structure of case['jmode'] (zero row blocks, zero scalar rows, duplicated column, zero column, all zero)"""
        P, mode = case["P"], case.get("jmode", "dense")
        rs = np.random.RandomState(case["seed"])
        J = rs.randn(n * d, P) * 10.0 ** rs.uniform(-2, 2, size=(1, P))
        if mode == "zero_blocks":                       # the model does not depend on the parameters in some residual rows
            z = rs.rand(n) < 0.5
            z[rs.randint(n)] = True
            J[np.repeat(z, d)] = 0.0
        elif mode == "zero_lines":
            z = rs.rand(n * d) < 0.5
            z[rs.randint(n * d)] = True
            J[z] = 0.0
        elif mode == "dup_col":                         # rank deficient: last column = -2 x first (P = 1: nothing to duplicate)
            if P > 1:
                J[:, -1] = -2.0 * J[:, 0]
        elif mode == "zero_col":
            J[:, rs.randint(P)] = 0.0
        elif mode == "zero_all":
            J[:] = 0.0
        return J

    def oracle(self, case, rec):
        spec, dtype, P = case["kernel"], case["dtype"], case["P"]
        k, fam = spec["k"], RK.family(spec)
        eps = tu.EPS[dtype]
        tiny = 64 * float(np.finfo(np.dtype(dtype)).tiny)
        mod, ref = build(spec)
        n, d = len(case["R"]), len(case["R"][0])
        R = tu.tens(case["R"], dtype).reshape(list(case["shape"]) + [d])
        J = tu.tens(self.jacobian(case, n, d).tolist(), dtype)
        Rn, Jn = tu.npy(R).reshape(n, d), tu.npy(J).reshape(n, d, P)
        # --- the harness's own rho', rho'' at x_i = |R_i|^2 (exact squares of the dtype values) ---------------
        rr = row_refs(ref, spec, Rn, dtype)
        r1, r2, cond, rcls, xs = rr["r1"], rr["r2"], rr["cond"], rr["cls"], rr["x"]
        if rr["thr_exact"]:
            rec.label("row:|R|^2==T exactly")
        rn = np.sqrt((Rn ** 2).sum(1))
        g_ref, g_tol = grad_ref(rr, Rn, Jn, eps, tiny)
        rec.label(k, fam, dtype, "J:" + case.get("jmode", "dense"), "n:1-8" if n <= 8 else "n:9-16" if n <= 16 else "n:17-40",
                  *("row:" + c for c in sorted(set(rcls))), *("row:ambig:" + w for c, w in set(zip(rcls, rr["why"])) if c == "ambig"),
                  *("gen:" + c for c in sorted(set(case["cls"]))))
        if k == "Tolerant":
            ratio = spec["p"][0] / -spec["p"][1]
            rec.label("tolerant:a/|b|<0.02" if ratio < 0.02 else "tolerant:a/|b|>=38" if ratio >= 38 else "tolerant:a/|b| in [0.02,38)")
        if (np.abs(Jn).sum((1, 2)) == 0).any():
            rec.label("J:some row block zero")
        if P > 1 and np.linalg.matrix_rank(Jn.reshape(n * d, P)) < min(P, n * d):
            rec.label("J:rank deficient")
        if {"zero", "pos", "nonpos"} <= set(rcls):
            rec.nt((k, dtype, tuple(sorted(rcls))[:12], tuple(sorted(set(case["cls"]))), d, P, len(case["shape"]), case.get("jmode", "dense")))
        out = {}
        for cname in ("FastTriggs", "Triggs"):
            with _sut(rec, cname, fam if fam != "builtin" else k), torch.set_grad_enabled(not case.get("nograd", True)):
                Rc, Jc = getattr(ppc, cname)(mod)(R=R, J=J)          # optimizer.step calls it under no_grad
            if not rec.check(isinstance(Rc, torch.Tensor) and isinstance(Jc, torch.Tensor) and Rc.shape == R.shape
                             and Jc.shape == J.shape, "shape:" + cname, "%s returned shapes %s, %s for R %s, J %s"
                             % (cname, getattr(Rc, "shape", None), getattr(Jc, "shape", None), tuple(R.shape), tuple(J.shape))):
                return
            Rc, Jc = tu.npy(Rc).reshape(n, d), tu.npy(Jc).reshape(n, d, P)
            out[cname] = (Rc, Jc)
            if not rec.check(np.isfinite(Rc).all() and np.isfinite(Jc).all(), "nonfinite:%s:%s" % (cname, fam),
                             lambda: "%s(%s%s) returned non-finite values for R=%s (row classes %s)"
                             % (cname, k, spec["p"], case["R"], rcls)):
                return
            g = np.einsum("idp,id->p", Jc, Rc)
            err = np.abs(g - g_ref)
            nk = "r_grad:%s:%s" % (cname, dtype)
            rec.notes[nk] = max(rec.notes.get(nk, 0), float((err / g_tol).max()))
            rec.check((err <= g_tol).all(), "gradient:%s:%s:%s" % (cname, fam, dtype),
                      lambda: "%s(%s%s): J'^T R' = %s but sum_i rho'(|R_i|^2) J_i^T R_i = %s (tol %s; rho'=%s, rho''=%s, "
                      "row classes %s)" % (cname, k, spec["p"], g.tolist(), g_ref.tolist(), g_tol.tolist(), r1.tolist(),
                                           r2.tolist(), rcls))
        (Rf, Jf), (Rt, Jt) = out["FastTriggs"], out["Triggs"]
        for i in range(n):
            jf2 = float((Jn[i] ** 2).sum())
            jf = math.sqrt(jf2)
            sq = math.sqrt(r1[i])
            eR = float(np.abs(Rt[i] - Rf[i]).max()) / (C_S * eps * cond[i] * sq * rn[i] + tiny * (1 + rn[i]))
            eJ = float(np.abs(Jt[i] - Jf[i]).max()) / (C_S * eps * cond[i] * sq * jf + tiny * (1 + jf))
            H = Jt[i].T @ Jt[i]
            v = Jn[i].T @ Rn[i]
            vv = np.outer(v, v)
            B = H - r1[i] * Jn[i].T @ Jn[i]                         # must be 2 rho'' v v^T

            def tolH(r2v, spread):
                """C_H eps cond rho' amp |J_i|^2 (amp = 1 + 2 x rho''/rho') + the part of rho'' that is not a relative error:
                2 spread |v|^2 <= 2 spread x |J_i|^2, spread = how far the rho'' seen in the dtype may be from rho''(x)"""
                amp = 1 + 2 * xs[i] * max(r2v, 0.0) / r1[i] if r1[i] > 0 else 1.0
                return C_H * eps * cond[i] * r1[i] * amp * jf2 + 2 * spread * xs[i] * jf2 + tiny * (1 + jf2)
            ci = rcls[i]
            if ci == "open" and rr["why"][i] not in KNOWN_OPEN:
                ci = "nonpos"                                   # rho'' < 0 there: the property's "coincides with FastTriggs"
            if ci == "pos":
                spread = max(rr["hi"][i] - r2[i], r2[i] - rr["lo"][i])
                eH = float(np.abs(B - 2 * r2[i] * vv).max()) / tolH(r2[i], spread)
                rec.notes["r_hessian:" + dtype] = max(rec.notes.get("r_hessian:" + dtype, 0), eH)
                rec.check(eH <= 1, "hessian:Triggs:%s:%s" % (fam, dtype),
                          lambda: "Triggs(%s%s) row %d (R_i=%s, rho'=%.6g, rho''=%.6g>0): J'_i^T J'_i = %s, expected rho' J^T J + "
                          "2 rho'' J^T R R^T J = %s (error/tol %.3g)" % (k, spec["p"], i, Rn[i].tolist(), r1[i], r2[i], H.tolist(),
                                                                          (r1[i] * Jn[i].T @ Jn[i] + 2 * r2[i] * vv).tolist(), eH))
            elif ci in ("zero", "nonpos"):
                rec.notes["r_same:" + dtype] = max(rec.notes.get("r_same:" + dtype, 0), eR, eJ)
                rec.check(eR <= 1 and eJ <= 1, "same_as_fast:%s:%s" % (fam, dtype),
                          lambda: "Triggs(%s%s) row %d (R_i=%s, rho''=%.6g, class %s) differs from FastTriggs: R' %s vs %s "
                          "(error/tol %.3g), J' error/tol %.3g" % (k, spec["p"], i, Rn[i].tolist(), r2[i], rcls[i],
                                                                  Rt[i].tolist(), Rf[i].tolist(), eR, eJ))
            elif ci == "open":
                rec.label("row:open:%s:%s" % (rr["why"][i], "coincides" if eR <= 1 and eJ <= 1 else "DIFFERS from FastTriggs"))
            else:
                # the sign of rho'' is not decided in the dtype (see row_refs): pypose may have seen any rho'' in [lo, hi]; where
                # it saw rho'' <= 0 it must have taken FastTriggs's form (= the Triggs Hessian with rho'' = 0).  So: the row's
                # Hessian must be rho' J^T J + 2 q v v^T for SOME q in [0, max(hi, 0)]  (least-squares q, clipped)
                # (R'_i itself is not compared: with a noise-level rho'' > 0 Triggs's row differs from FastTriggs's by alpha ~ x rho''/rho';
                # it is constrained through J'^T R' above)
                hi = max(rr["hi"][i], 0.0)
                den = 2 * float((vv ** 2).sum())
                q = min(max(float((B * vv).sum()) / den, 0.0), hi) if den > 0 and math.isfinite(den) else 0.0
                eH = float(np.abs(B - 2 * q * vv).max()) / tolH(q, 0.0)
                rec.notes["r_ambig:" + dtype] = max(rec.notes.get("r_ambig:" + dtype, 0), eH)
                rec.check(eH <= 1, "ambiguous_row:%s:%s" % (fam, dtype),
                          lambda: "Triggs(%s%s) row %d (R_i=%s, rho'' in [%.3g, %.3g] at dtype resolution): J'_i^T J'_i - rho' J^T J = %s "
                          "is not 2 q J^T R R^T J for any q in [0, %.3g] (best q %.3g, error/tol %.3g; FastTriggs R' %.3g, J' %.3g)"
                          % (k, spec["p"], i, Rn[i].tolist(), rr["lo"][i], rr["hi"][i], B.tolist(), hi, q, eH, eR, eJ))

    def valid(self, case):
        r0 = math.sqrt(_thr(case["kernel"])) if RK.in_domain(case["kernel"]) else 0.0
        tmax = TMAX.get(case["kernel"]["k"], 30.0) * 1.001
        return r0 > 0 and all(math.sqrt(sum(v * v for v in r)) <= tmax * r0 for r in case["R"])

    def simplify(self, case):
        n, d = len(case["R"]), len(case["R"][0])
        for i in range(n):
            if n > 1:
                yield dict(case, shape=[n - 1], R=case["R"][:i] + case["R"][i + 1:], cls=case["cls"][:i] + case["cls"][i + 1:])
        if len(case["shape"]) > 1:
            yield dict(case, shape=[n])
        if case.get("jmode", "dense") != "dense":
            yield dict(case, jmode="dense")
        if case["P"] > 1:
            yield dict(case, P=1)
        for j in range(d):
            if d > 1:
                yield dict(case, R=[r[:j] + r[j + 1:] for r in case["R"]])
        if case["dtype"] == "float32":
            yield dict(case, dtype="float64")
        if case["seed"] != 0:
            yield dict(case, seed=0)


# ---------------------------------------------------------------------------------------------------
class LinNet(nn.Module):
    """residual blocks f_k(theta) = M_k theta, M_k of shape (n_k, d_k, P): the Jacobian of block k is M_k.reshape(n_k d_k, P)"""
    def __init__(self, theta, Ms):
        super().__init__()
        self.theta = nn.Parameter(theta)
        self.Ms = Ms

    def forward(self, inp):
        outs = tuple(M @ self.theta for M in self.Ms)
        return outs[0] if len(outs) == 1 else outs


class Capture(nn.Module):
    """solver that records the linear system the optimizer built and proposes the zero step (so that the loss step()
    reports is the loss at the parameters the system was linearised at)"""
    def __init__(self):
        super().__init__()
        self.calls = []

    def forward(self, A, b):
        self.calls.append((A.detach().clone(), b.detach().clone()))
        return torch.zeros(A.shape[-1], 1, dtype=A.dtype)


class Descent(Sub):
    """end-to-end form of "the optimiser's descent direction is the gradient of the robust loss it reports": pp.optim.GN / LM on
    a linear residual model; what the optimizer hands to its solver (J', R' after the corrector) against the harness's
    sum rho' J^T R, against autograd's gradient of optimizer.model.loss (RobustModel.loss = sum_i rho(|R_i|^2), no 1/2, so
    grad loss = 2 J'^T R'), and the loss value step() returns against sum rho (harness closed forms)."""
    name = "descent"
    budget_s = {"quick": 400.0, "thorough": 3000.0}      # wall guard only; case counts are the budget
    n = {"quick": 1000, "thorough": 30000}
    CONFIGS = [(1, False, "auto"), (1, False, "FastTriggs"), (1, False, "Triggs"), (1, False, "Triggs"), (2, False, "auto"), (2, False, "Triggs"),
               (2, True, "auto"), (2, True, "Triggs"), (2, True, "FastTriggs"), (2, True, "Triggs,FastTriggs"), (2, True, "FastTriggs,Triggs")]

    def strategy(self, tier):
        fams = ("builtin", "builtin", "pos", "mixed", "mixed", "mixed", "lin", "neg")

        @st.composite
        def s(draw):
            dtype = draw(st.sampled_from(gen.DTYPES))
            nb, klist, corr = self.CONFIGS[draw(st.integers(0, len(self.CONFIGS) - 1))]     # blocks, one kernel per block?, corrector(s)
            specs = [draw(kernel_spec(fams)) for _ in range(2 if klist else 1)]
            blocks = []
            for bi in range(nb):
                spec = specs[bi if klist else 0]
                d, n = draw(st.integers(1, 6)), draw(st.integers(1, 6))
                forced = list(draw(st.permutations(("zero", "lo", "hi"))))[:n] if RK.family(spec) == "mixed" and draw(st.booleans()) else []
                rows, cls = _draw_rows(draw, spec, dtype, n, d, forced)
                blocks.append({"R": rows, "cls": cls})
            return {"kernels": specs, "dtype": dtype, "blocks": blocks, "P": draw(st.integers(1, 4)), "seed": draw(st.integers(0, 2 ** 31 - 1)),
                    "opt": ("GN", "LM")[draw(st.integers(0, 1))], "corrector": corr, "vectorize": bool(draw(st.integers(0, 1)))}
        return s()

    def oracle(self, case, rec):
        import pypose as pp
        dtype, P, blocks = case["dtype"], case["P"], case["blocks"]
        eps = tu.EPS[dtype]
        tiny = 64 * float(np.finfo(np.dtype(dtype)).tiny)
        specs = case["kernels"]
        klist = len(specs) > 1
        built = [build(sp) for sp in specs]
        fams = sorted({RK.family(sp) for sp in specs})
        tag = "+".join(fams)
        rs = np.random.RandomState(case["seed"])
        theta = tu.tens(rs.uniform(-1, 1, size=P).tolist(), dtype)
        Ms, ys, Ract = [], [], []
        for blk in blocks:
            n, d = len(blk["R"]), len(blk["R"][0])
            M = tu.tens((rs.randn(n, d, P) * 10.0 ** rs.uniform(-1, 1, size=(1, 1, P))).tolist(), dtype)
            with torch.no_grad():
                out = M @ theta
                y = out - tu.tens(blk["R"], dtype)            # target such that the residual is (up to rounding of out) the drawn one
                y = torch.where(tu.tens(blk["R"], dtype) == 0, out, y)          # exact zeros stay exact
                Ract.append(tu.npy(out - y).reshape(n, d))                      # the residual the optimizer sees (same ops)
            Ms.append(M); ys.append(y)
        for bi, blk in enumerate(blocks):                    # rounding of `out - R` may push a row over the stated |R| bound
            sp = specs[bi if klist else 0]
            lim = TMAX.get(sp["k"], 30.0) * 1.01 * math.sqrt(_thr(sp))
            if not (np.sqrt((Ract[bi] ** 2).sum(1)) <= lim).all():
                rec.discard_case("rounded residual outside |R| <= tmax sqrt(T)")
        net = LinNet(theta.clone(), Ms)
        kern = [m for m, _ in built] if klist else built[0][0]
        if case["corrector"] == "auto":
            corr = None
        else:
            names = case["corrector"].split(",")
            cl = [getattr(ppc, names[i % len(names)])(built[i][0]) for i in range(len(built))]
            corr = cl if klist else cl[0]
        cap = Capture()
        target = ys[0] if len(blocks) == 1 else ys
        dummy = torch.zeros(1, dtype=tu.TD[dtype])
        with _sut(rec, case["opt"], tag):
            if case["opt"] == "GN":
                opt = pp.optim.GN(net, solver=cap, kernel=kern, corrector=corr, vectorize=case["vectorize"])
            else:
                opt = pp.optim.LM(net, solver=cap, strategy=pp.optim.strategy.Constant(damping=1e-6), kernel=kern, corrector=corr,
                                  vectorize=case["vectorize"], reject=0, min=1e-30, max=1e32)
            loss = opt.step(dummy, target=target)
            with torch.enable_grad():
                L = opt.model.loss(dummy, target)
                gL = torch.autograd.grad(L, net.theta, allow_unused=True)[0]
        gL = np.zeros(P) if gL is None else tu.npy(gL).reshape(P)
        if not rec.check(len(cap.calls) == 1 and bool(torch.equal(net.theta.detach(), theta)), "protocol:" + case["opt"],
                         "%s called the solver %d times / moved the parameters on a zero step" % (case["opt"], len(cap.calls))):
            return
        A, b = (tu.npy(t) for t in cap.calls[0])
        # ---- the harness's reference: sum_i rho'(|R_i|^2) J_i^T R_i, sum_i rho(|R_i|^2) --------------------------------------
        N = sum(r.size for r in Ract)
        g_ref, g_tol, Lref, Ltol, sabs, rcls_all = np.zeros(P), np.zeros(P), 0.0, 0.0, np.zeros(P), []
        for bi, blk in enumerate(blocks):
            sp, (_, ref) = specs[bi if klist else 0], built[bi if klist else 0]
            Rn, Jn = Ract[bi], tu.npy(Ms[bi])
            rr = row_refs(ref, sp, Rn, dtype)
            g, t = grad_ref(rr, Rn, Jn, eps, tiny)
            g_ref += g; g_tol += t
            rn, jn = np.sqrt((Rn ** 2).sum(1)), np.sqrt((Jn ** 2).sum(1))
            sabs += np.einsum("i,i,ip->p", rr["r1"], rn, jn)
            Lref += float(rr["rho"].sum())
            Ltol += float((VAL_C * eps * (np.abs(rr["rho"]) + ref.vscale + rr["x"] * (1 + rr["r1"]))).sum()) + N * eps * float(np.abs(rr["rho"]).sum())
            rcls_all += rr["cls"]
            rec.label(sp["k"], RK.family(sp), *("row:" + c for c in sorted(set(rr["cls"]))))
        rec.label(dtype, case["opt"], "corrector:" + case["corrector"], "blocks:%d" % len(blocks), "kernels:%s" % ("list" if klist else "single"),
                  "vectorize:%s" % case["vectorize"])
        if {"zero", "pos", "nonpos"} <= set(rcls_all):
            rec.nt((tuple(sp["k"] for sp in specs), dtype, tuple(sorted(rcls_all))[:12], case["opt"], case["corrector"], P, len(blocks)))
        Ltol += tiny
        key = "%s:%s:%s" % (case["opt"], tag, dtype)
        # ---- (1) what the optimizer solves with ------------------------------------------------------------------------------
        if case["opt"] == "GN":          # solver(A = J', b = -R')
            if not rec.check(A.shape == (N, P) and b.shape == (N, 1), "system_shape:GN", "GN handed A %s, b %s to the solver for %d residuals, %d parameters"
                             % (A.shape, b.shape, N, P)):
                return
            g_sol, tol_sol = -(A.T @ b).reshape(P), g_tol
        else:                            # solver(A = J'^T J' (1 + damping), b = -J'^T R'): the product is formed in the dtype
            if not rec.check(A.shape == (P, P) and b.shape == (P, 1), "system_shape:LM", "LM handed A %s, b %s to the solver for %d parameters"
                             % (A.shape, b.shape, P)):
                return
            g_sol, tol_sol = -b.reshape(P), g_tol + (N + 2) * eps * sabs
        e1 = np.abs(g_sol - g_ref) / tol_sol
        rec.notes["r_solved:" + dtype] = max(rec.notes.get("r_solved:" + dtype, 0), float(e1.max()))
        rec.check((e1 <= 1).all(), "solved_gradient:" + key,
                  lambda: "%s(kernel %s, corrector %s): the solver received J'^T R' = %s, robust gradient sum rho' J^T R = %s (tol %s; rows %s)"
                  % (case["opt"], [(sp["k"], sp["p"]) for sp in specs], case["corrector"], g_sol.tolist(), g_ref.tolist(), tol_sol.tolist(), rcls_all))
        # ---- (2) gradient of the loss the optimizer reports: d/dtheta sum rho(|R_i|^2) = 2 sum rho' J^T R (summed in the dtype) --
        tol_L = 2 * (g_tol + (N + 2) * eps * sabs)
        e2 = np.abs(gL - 2 * g_ref) / tol_L
        rec.notes["r_lossgrad:" + dtype] = max(rec.notes.get("r_lossgrad:" + dtype, 0), float(e2.max()))
        rec.check((e2 <= 1).all(), "loss_gradient:" + key,
                  lambda: "%s(kernel %s): autograd gradient of optimizer.model.loss = %s, 2 sum rho' J^T R = %s (tol %s)"
                  % (case["opt"], [(sp["k"], sp["p"]) for sp in specs], gL.tolist(), (2 * g_ref).tolist(), tol_L.tolist()))
        e3 = np.abs(gL - 2 * g_sol) / (tol_L + 2 * tol_sol)
        rec.notes["r_descent:" + dtype] = max(rec.notes.get("r_descent:" + dtype, 0), float(e3.max()))
        rec.check((e3 <= 1).all(), "descent_is_loss_gradient:" + key,
                  lambda: "%s(kernel %s, corrector %s): the system solved has J'^T R' = %s but the gradient of the reported loss is 2 x %s"
                  % (case["opt"], [(sp["k"], sp["p"]) for sp in specs], case["corrector"], g_sol.tolist(), (gL / 2).tolist()))
        # ---- (3) the loss it reports ------------------------------------------------------------------------------------------
        for nm, val in (("step", float(loss)), ("model.loss", float(L))):
            e4 = abs(val - Lref) / Ltol if math.isfinite(val) else math.inf
            rec.notes["r_loss:" + dtype] = max(rec.notes.get("r_loss:" + dtype, 0), e4)
            rec.check(e4 <= 1, "loss_value:" + key, lambda: "%s(kernel %s): %s reports the loss %r, sum_i rho(|R_i|^2) = %r (tol %.3g)"
                      % (case["opt"], [(sp["k"], sp["p"]) for sp in specs], nm, val, Lref, Ltol))

    def valid(self, case):
        return all(RK.in_domain(sp) for sp in case["kernels"]) and all(len(b["R"]) >= 1 for b in case["blocks"])

    def simplify(self, case):
        if len(case["blocks"]) > 1 and len(case["kernels"]) == 1:
            for i in range(len(case["blocks"])):
                yield dict(case, blocks=[case["blocks"][i]])
        for bi, blk in enumerate(case["blocks"]):
            n, d = len(blk["R"]), len(blk["R"][0])
            for i in range(n):
                if n > 1:
                    nb = {"R": blk["R"][:i] + blk["R"][i + 1:], "cls": blk["cls"][:i] + blk["cls"][i + 1:]}
                    yield dict(case, blocks=case["blocks"][:bi] + [nb] + case["blocks"][bi + 1:])
            for j in range(d):
                if d > 1:
                    nb = {"R": [r[:j] + r[j + 1:] for r in blk["R"]], "cls": blk["cls"]}
                    yield dict(case, blocks=case["blocks"][:bi] + [nb] + case["blocks"][bi + 1:])
        if case["P"] > 1:
            yield dict(case, P=1)
        if case["opt"] != "GN":
            yield dict(case, opt="GN")
        if case["dtype"] == "float32":
            yield dict(case, dtype="float64")
        if case["seed"] != 0:
            yield dict(case, seed=0)


SUBS = [Values(), Reject(), Correctors(), Descent()]

# Triggs.compute_grads differentiates rho' again with autograd.grad; for a kernel that is linear in x (built-in
# Scale, user identity / c*x) rho' does not depend on x and autograd raises instead of returning rho''=0.
_F5C_CASE = {"kernel": {"k": "Scale", "p": [0.5]}, "dtype": "float64", "shape": [1], "R": [[1.0]], "cls": ["thr"],
             "P": 1, "seed": 0}
KNOWN = {"F5c": {"probe": ("correctors", _F5C_CASE),
                 "match": lambda sub, case, bucket: sub == "correctors" and RK.family(case["kernel"]) in ("lin", "builtin")
                 and case["kernel"]["k"] in ("Scale", "ident", "lin") and bucket.startswith("raises:Triggs:")
                 and bucket.endswith("RuntimeError@corrector.py:compute_grads")}}


def selftest():
    RK.selftest()
    # the torch user kernels are the functions the reference describes (values and autograd derivatives)
    with mp.workdps(RK.DPS):
        for k, fam in RK.USER.items():
            p = {"ident": [], "xlog1p": [], "sine": [0.6, 2.0], "cubic": [0.4, 1.5], "chuber": [0.8, 1.25]}.get(k, [0.7])
            mod, ref = build({"k": k, "p": p})
            x = torch.tensor([0.0, 0.3, 1.1, 2.9], dtype=torch.float64, requires_grad=True)
            y = mod(x)
            g1, = torch.autograd.grad(y.sum(), x, create_graph=True)
            g2 = torch.autograd.grad(g1.sum(), x)[0] if g1.requires_grad else torch.zeros_like(x)
            for i, xv in enumerate(x.tolist()):
                want = [float(f(mp.mpf(xv))) for f in (ref.rho, ref.d1, ref.d2)]
                got = [float(y[i]), float(g1[i]), float(g2[i])]
                assert np.allclose(got, want, rtol=1e-12, atol=1e-13), (k, xv, got, want)
            cl = {ref.curv_class(mp.mpf(v), 1e-15) for v in (0.3, 1.1, 2.9)}
            assert cl == {"pos": {"pos"}, "lin": {"nonpos"}, "neg": {"nonpos"}, "mixed": {"pos", "nonpos"}}[fam], (k, cl)
