"""C11 - matrix and Euler conversions are exact inverses of matrix() / each other."""
import math
import numpy as np
import torch
import pypose as pp
from hypothesis import strategies as st

from ..core import Sub
from ..ref import lie as R
from .. import tu, gen

PROPERTY = "C11"
RULE = ("roundtrip: group elements from the C02 generators (angles 0, pi, pi+-{1e-12..1e-3}, about coordinate axes / face and "
        "space diagonals / random axes, both quaternion signs; scales 10^[-3,3]; translations to 1e3; batches; both dtypes) -> "
        "X.matrix() -> mat2SO3/mat2SE3/mat2Sim3/mat2RxSO3/from_matrix on every accepted layout (3x3, 3x4, 4x4; sliced or padded) "
        "with check=True and check=False: the result's reference matrix equals the input (32 eps s), unit quaternion (8 eps), same "
        "scale (32 eps rel), correct ltype/shape, and never raises. The extraction branch (recomputed by the harness from the "
        "diagonal) is recorded; all four are populated.  euler: euler2SO3(r,p,y) == Rz(y)Ry(p)Rx(r) (own matrices), "
        "euler2SO3(X.euler()) is the same rotation as X when |sin pitch| < 1-2e-4 (tolerance 64 eps / cos pitch), angles in "
        "[-pi,pi]x[-pi/2,pi/2]x[-pi,pi].  reject: valid matrices perturbed by a traceless symmetric shear / reflection / rank loss "
        "with defect >= 10x the stated atol+rtol tolerance must raise ValueError with check=True; defect <= 0.1x must not.  "
        "Non-trivial: angle within 1e-3 of pi, non-default extraction branch, scale outside [0.1,10], or a rejection case; "
        "distinct = (converter, ltype, dtype, layout, branch, regimes).")
ASSUMPTIONS = ["inputs to the converters are produced by matrix() of a valid element in the same dtype (or a stated perturbation of it)",
               "default rtol = atol = 1e-5; the band between 0.1x and 10x of the tolerance is unconstrained"]

CONV = {"SO3": pp.mat2SO3, "SE3": pp.mat2SE3, "Sim3": pp.mat2Sim3, "RxSO3": pp.mat2RxSO3}


def _branch(Rm, atol=1e-5):
    """which of the four extraction formulas the documented algorithm selects (on the transposed matrix)"""
    d0, d1, d2 = Rm[0, 0], Rm[1, 1], Rm[2, 2]
    if d2 < atol:
        return "c0" if d0 > d1 else "c1"
    return "c2" if d0 < -d1 else "c3"


def _layout(M4, layout):
    if layout == "3x3":
        return M4[..., :3, :3]
    if layout == "3x4":
        return M4[..., :3, :4]
    return M4


def _to4(M):
    if M.shape[-1] == 3 and M.shape[-2] == 3:
        out = torch.eye(4, dtype=M.dtype).repeat(M.shape[:-2] + (1, 1))
        out[..., :3, :3] = M
        return out
    return M


class RoundTrip(Sub):
    name = "roundtrip"
    n = {"quick": 12000, "thorough": 300000}

    def valid(self, case):
        return gen.valid_groups(case["ltype"], case["items"], case["dtype"])

    def strategy(self, tier):
        @st.composite
        def s(draw):
            lt = draw(st.sampled_from(R.GROUPS))
            dtype = draw(st.sampled_from(gen.DTYPES))
            shape = draw(gen.lshape(max_rank=2, extents=(1, 2, 3), max_items=3))
            n = int(np.prod(shape)) if shape else 1
            items, regs = [], []
            for _ in range(n):
                X, reg = draw(gen.group(lt, dtype, tcap=1e3, slo=math.log(1e-3), shi=math.log(1e3)))
                items.append(X); regs.append(reg)
            return {"ltype": lt, "dtype": dtype, "lshape": shape, "items": items, "regs": regs,
                    "layout": draw(st.sampled_from(("3x3", "3x4", "4x4"))), "check": draw(st.sampled_from((True, True, False))),
                    "via": draw(st.sampled_from(("mat2", "from_matrix")))}
        return s()

    def oracle(self, case, rec):
        lt, dtype, layout = case["ltype"], case["dtype"], case["layout"]
        eps = tu.EPS[dtype]
        X = tu.lie(lt, case["items"], dtype, shape=case["lshape"])
        M = X.matrix()
        Min = _layout(_to4(M), layout).contiguous()
        Min0 = Min.clone()
        with rec.sut("%s(%s,check=%s)" % (case["via"], layout, case["check"])):
            if case["via"] == "mat2":
                Y = CONV[lt](Min, check=case["check"])
            else:
                Y = pp.from_matrix(Min, tu.LT[lt], check=case["check"])
        rec.label(lt, dtype, layout)
        if not rec.check(isinstance(Y, pp.LieTensor) and Y.ltype == tu.LT[lt] and tuple(Y.shape) == tuple(case["lshape"]) + (R.GDIM[lt],),
                         "type", "converter returned %s shape %s" % (getattr(Y, "ltype", None), tuple(Y.shape))):
            return
        rec.check(torch.equal(Min, Min0), "mutates_input", "converter changed its input matrix")
        Yn = tu.npy(Y).reshape(-1, R.GDIM[lt])
        Mn = tu.npy(_to4(M)).reshape(-1, 4, 4)
        for i, (it, reg) in enumerate(zip(case["items"], case["regs"])):
            t, q, s = R.split_group(lt, it)
            ang = R.quat_angle(q)
            br = _branch(Mn[i][:3, :3] / s)
            rec.label("branch:" + br)
            if ang > math.pi - 1e-3 or br != "c3" or not (0.1 <= s <= 10):
                rec.nt((case["via"], lt, dtype, layout, br, gen.regime_key(reg), case["check"]))
            y = Yn[i]
            if not rec.check(bool(np.all(np.isfinite(y))), "nonfinite:" + lt, "converter gave %s for X=%s" % (y.tolist(), it)):
                continue
            ty, qy, sy = R.split_group(lt, y)
            qn = abs(float(np.linalg.norm(qy)) - 1)
            rec.notes["qn"] = max(rec.notes.get("qn", 0), qn / (8 * eps))
            rec.check(qn <= 8 * eps, "quatnorm:%s:%s" % (lt, dtype), lambda: "| |q|-1 | = %.3g for X=%s (branch %s)" % (qn, it, br))
            want = Mn[i].copy()
            if layout == "3x3" or lt in ("SO3", "RxSO3"):
                want[:3, 3] = 0
            got = R.mat4(lt, y)
            tol = 32 * eps * s
            err = float(np.abs(got[:3, :3] - want[:3, :3]).max())
            rec.notes["rot"] = max(rec.notes.get("rot", 0), err / tol)
            rec.check(err <= tol, "matrix:%s:%s:%s" % (lt, dtype, br), lambda: "matrix of the converted element differs by %.3g (tol %.3g) X=%s branch %s" % (err, tol, it, br))
            if lt in ("SE3", "Sim3"):
                et = float(np.abs(got[:3, 3] - want[:3, 3]).max())
                rec.check(et <= 4 * eps * max(1.0, float(np.abs(want[:3, 3]).max())), "translation:%s" % lt, lambda: "translation changed by %.3g" % et)
            if lt in ("RxSO3", "Sim3"):
                es = abs(sy - s) / s
                rec.notes["scale"] = max(rec.notes.get("scale", 0), es / (32 * eps))
                rec.check(es <= 32 * eps, "scale:%s:%s" % (lt, dtype), lambda: "scale %r vs %r (rel %.3g)" % (sy, s, es))

    def simplify(self, case):
        if len(case["items"]) > 1:
            for i in range(len(case["items"])):
                yield dict(case, lshape=[], items=[case["items"][i]], regs=[case["regs"][i]])


def _Rx(a): c, s = math.cos(a), math.sin(a); return np.array([[1, 0, 0], [0, c, -s], [0, s, c]])
def _Ry(a): c, s = math.cos(a), math.sin(a); return np.array([[c, 0, s], [0, 1, 0], [-s, 0, c]])
def _Rz(a): c, s = math.cos(a), math.sin(a); return np.array([[c, -s, 0], [s, c, 0], [0, 0, 1]])


class Euler(Sub):
    name = "euler"
    n = {"quick": 12000, "thorough": 300000}

    def strategy(self, tier):
        ang = st.one_of(st.floats(-math.pi, math.pi), st.sampled_from((0.0, math.pi, -math.pi, math.pi / 2, -math.pi / 2, 1e-9, -1e-9)))
        pit = st.one_of(st.floats(-math.pi / 2, math.pi / 2),
                        st.sampled_from((0.0, 1.5, -1.5, math.pi / 2 - 0.03, -(math.pi / 2 - 0.03), math.pi / 2, -math.pi / 2, math.pi / 2 - 1e-3)))

        @st.composite
        def s(draw):
            dtype = draw(st.sampled_from(gen.DTYPES))
            kind = draw(st.sampled_from(("angles", "angles", "quat")))
            if kind == "angles":
                return {"dtype": dtype, "kind": kind, "rpy": gen.rnd_list([draw(ang), draw(pit), draw(ang)], dtype)}
            q, reg = draw(gen.unit_quat(dtype))
            return {"dtype": dtype, "kind": kind, "q": q, "reg": reg}
        return s()

    def oracle(self, case, rec):
        dtype = case["dtype"]
        eps = tu.EPS[dtype]
        if case["kind"] == "angles":
            r, p, y = case["rpy"]
            with rec.sut("euler2SO3"):
                X = pp.euler2SO3(tu.tens(case["rpy"], dtype))
            rec.check(isinstance(X, pp.LieTensor) and X.ltype == pp.SO3_type and tuple(X.shape) == (4,), "euler2SO3:type", "bad type/shape")
            want = _Rz(y) @ _Ry(p) @ _Rx(r)
            got = R.qrot(tu.npy(X))
            err = float(np.abs(got - want).max())
            rec.notes["e2s"] = max(rec.notes.get("e2s", 0), err / (32 * eps))
            rec.check(err <= 32 * eps, "euler2SO3:value:" + dtype, lambda: "euler2SO3(%s) differs from Rz Ry Rx by %.3g" % (case["rpy"], err))
            qn = abs(float(np.linalg.norm(tu.npy(X))) - 1)
            rec.check(qn <= 8 * eps, "euler2SO3:quatnorm", "quaternion norm off by %.3g" % qn)
            if abs(abs(p) - math.pi / 2) < 0.05:
                rec.nt(("e2s", dtype, "near_gimbal", round(p, 3)))
            q = tu.npy(X).tolist()
            q = gen.rnd_list(q, dtype)
        else:
            q = case["q"]
        X = tu.lie("SO3", q, dtype)
        with rec.sut("euler"):
            e = X.euler()
            e2 = pp.euler(X)
            Y = pp.euler2SO3(e)
        en = tu.npy(e)
        rec.check(tuple(e.shape) == (3,) and torch.equal(e, e2), "euler:shape", "euler() shape %s / pp.euler differs" % (tuple(e.shape),))
        if not rec.check(bool(np.all(np.isfinite(en))), "euler:nonfinite", "euler(%s) = %s" % (q, en.tolist())):
            return
        tolr = 4 * eps * math.pi
        qd = np.array(q, dtype=np.float64)
        x, y_, z, w = qd / np.linalg.norm(qd)
        sinp = 2 * (w * y_ - z * x)
        rec.label("gimbal" if abs(sinp) >= 1 - 2e-4 else "regular")
        if abs(sinp) < 1 - 2.2e-4:
            # the statement ties the principal ranges to the non-degenerate case (in the gimbal band the
            # code returns roll = 0 and a combined yaw in [-2pi, 2pi], which the docstring does not exclude)
            rec.check(abs(en[0]) <= math.pi + tolr and abs(en[1]) <= math.pi / 2 + tolr and abs(en[2]) <= math.pi + tolr,
                      "euler:range", "angles %s outside principal ranges" % en.tolist())
            cosp = math.sqrt(max(1 - sinp * sinp, 0.0))
            tol = 64 * eps / max(cosp, 0.02)
            err = float(np.abs(R.qrot(tu.npy(Y)) - R.qrot(qd)).max())
            rec.notes["rt"] = max(rec.notes.get("rt", 0), err / tol)
            rec.check(err <= tol, "euler:roundtrip:" + dtype, lambda: "euler2SO3(X.euler()) differs from X by %.3g (tol %.3g) q=%s euler=%s" % (err, tol, q, en.tolist()))
            if case["kind"] == "quat" and (abs(sinp) > 0.99 or "pi" in case["reg"] or "neg" in case["reg"]):
                rec.nt(("rt", dtype, case["reg"], round(sinp, 2)))
            elif case["kind"] == "angles":
                rec.nt(("rt", dtype, "angles", int(10 * case["rpy"][1])))


class Reject(Sub):
    name = "reject"
    n = {"quick": 6000, "thorough": 120000}

    def valid(self, case):
        return gen.valid_group(case["ltype"], case["X"], case["dtype"])

    def strategy(self, tier):
        @st.composite
        def s(draw):
            lt = draw(st.sampled_from(R.GROUPS))
            dtype = draw(st.sampled_from(gen.DTYPES))
            X, reg = draw(gen.group(lt, dtype, tcap=10.0, slo=math.log(1e-2), shi=math.log(1e2)))
            kind = draw(st.sampled_from(("shear_big", "shear_small", "reflect", "rank", "shear_big_batch")))
            return {"ltype": lt, "dtype": dtype, "X": X, "reg": reg, "kind": kind,
                    "layout": draw(st.sampled_from(("3x3", "3x4", "4x4"))),
                    "axes": draw(st.permutations((0, 1, 2))), "mag": draw(st.floats(1.0, 8.0)),
                    "via": draw(st.sampled_from(("mat2", "from_matrix")))}
        return s()

    def oracle(self, case, rec):
        lt, dtype, kind = case["ltype"], case["dtype"], case["kind"]
        t, q, s = R.split_group(lt, case["X"])
        Rm = R.qrot(q)
        i, j, _ = case["axes"]
        S = np.zeros((3, 3)); S[i, i] = 1.0; S[j, j] = -1.0        # traceless symmetric: det unchanged to first order
        tol_stated = 2e-5                                            # atol + rtol*1 on the diagonal of R R^T
        if kind.startswith("shear_big"):
            delta = 10 * tol_stated * case["mag"]                    # defect of R R^T ~ 2*delta >= 20x tolerance
            B = Rm @ (np.eye(3) + delta * S)
        elif kind == "shear_small":
            delta = 0.05 * 1e-5 / case["mag"]                        # defect 2*delta <= 0.1 * atol (off-diagonal tolerance 1e-5)
            if dtype == "float32":
                delta = 0.0                                           # float32 rounding alone is ~1e-7; keep the valid matrix
            B = Rm @ (np.eye(3) + delta * S)
        elif kind == "reflect":
            D = np.eye(3); D[i, i] = -1.0
            B = Rm @ D
        else:
            D = np.eye(3); D[i, i] = 0.0
            B = Rm @ D
        M = np.eye(4); M[:3, :3] = s * B; M[:3, 3] = t
        Mt = _layout(torch.tensor(M, dtype=tu.TD[dtype]), case["layout"])
        if kind == "shear_big_batch":      # one bad item inside a batch of valid ones
            good = np.eye(4); good[:3, :3] = s * Rm; good[:3, 3] = t
            Mt = torch.stack([_layout(torch.tensor(good, dtype=tu.TD[dtype]), case["layout"]), Mt], 0)
        rec.label(lt, dtype, kind)
        rec.nt(("reject", lt, dtype, kind, case["layout"], case["via"]))
        conv = (lambda m: CONV[lt](m, check=True)) if case["via"] == "mat2" else (lambda m: pp.from_matrix(m, tu.LT[lt], check=True))
        if kind == "shear_small":
            with rec.sut("check=True on a valid matrix"):
                conv(Mt)
            return
        try:
            Y = conv(Mt)
        except ValueError:
            return
        except Exception as e:   # any other loud failure is still not a silent acceptance, but the statement says ValueError
            rec.fail("reject:wrong_exception:" + kind, "%s input raised %s instead of ValueError: %s" % (kind, type(e).__name__, e))
            return
        rec.fail("reject:accepted:%s:%s" % (kind, lt), "check=True accepted a %s matrix (%s, %s): returned %s" % (kind, lt, case["layout"], tu.npy(Y).tolist()))


SUBS = [RoundTrip(), Euler(), Reject()]


def selftest():
    # the branch recomputation matches the documented algorithm on the four canonical rotations
    assert _branch(np.diag([1.0, -1.0, -1.0])) == "c0" and _branch(np.diag([-1.0, 1.0, -1.0])) == "c1"
    assert _branch(np.diag([-1.0, -1.0, 1.0])) == "c2" and _branch(np.eye(3)) == "c3"
    a, b, c = 0.3, -0.7, 1.9
    q = np.array([math.sin(a / 2), 0, 0, math.cos(a / 2)])
    assert np.allclose(R.qrot(q), _Rx(a))
