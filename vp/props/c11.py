"""C11 - matrix and Euler conversions are exact inverses of matrix() / each other."""
import math
import warnings
import numpy as np
import torch
import pypose as pp
from hypothesis import strategies as st

from ..core import Sub
from ..ref import lie as R
from .. import tu, gen

PROPERTY = "C11"
RULE = ("roundtrip: group elements from the C02 generators (angles 0, pi, pi+-{1e-12..1e-3}, about coordinate axes / face and "
        "space diagonals / random axes, both quaternion signs; scales 10^[-3,3]; translations to 1e3; batches; both dtypes) -> "
        "X.matrix() -> mat2SO3/mat2SE3/mat2Sim3/mat2RxSO3/from_matrix on every accepted layout (3x3, 3x4, 4x4; sliced or padded) "
        "with check=True and check=False: the result's reference matrix equals the input (32 eps s), unit quaternion (16 eps), same "
        "scale (32 eps rel), correct ltype/shape, and never raises. The extraction branch (recomputed by the harness from the "
        "diagonal) is recorded; all four are populated.  euler: batches (lshape rank 0..2) of angle triples - principal ranges, ANY "
        "real angles (several turns, both signs, k pi/2 +- {0,1e-9,1e-4,0.03}) and pitches with 1-|sin pitch| = k eps_arg, "
        "k in {0,.25,.5,.9,1.3,2,4,16} - through euler2SO3 == Rz(y)Ry(p)Rx(r) (own matrices, 32 eps; unit quaternion 8 eps; shape), "
        "1 batch in 8 as a transposed (non-contiguous) tensor; then X.euler(eps) / pp.euler(X, eps) (identical, shape lshape+(3,)) "
        "on these SO3 results and on batched SO3/SE3/RxSO3/Sim3 elements (quaternion from the regime generator or aimed at the "
        "gimbal threshold, random translation / scale), eps_arg in {default, 2e-4, 1e-2, 1e-3, 0.05, 1e-5, 1e-6}: "
        "euler2SO3(X.euler()) is the same rotation as X when |sin pitch| < 1 - max(1.1 eps_arg, eps_arg + 16 eps) "
        "(tolerance 64 eps / cos pitch), angles in [-pi,pi]x[-pi/2,pi/2]x[-pi,pi] - hence the principal representative of "
        "non-principal input angles; inside the band only finiteness (the statement excludes it; pypose returns roll = 0 and a "
        "yaw in [-2pi,2pi] that reproduces X only to O(cos pitch): counted as gimbal / gimbal:angle_outside_principal).  "
        "reject: valid matrices perturbed by a traceless symmetric shear / isotropic scale c (SO3, SE3) / reflection / rank loss "
        "with defect >= 10x the stated atol+rtol tolerance, or holding a NaN / +-inf entry in the 3x3 block, must raise ValueError "
        "with check=True, alone or at any position of a batch of 2..4 otherwise valid matrices; defect <= 0.1x must not; c R is a "
        "VALID RxSO3 / Sim3 matrix and must be accepted with scale c s (round-trip tolerances + input rounding). A 4x4 input with "
        "a valid rotation block and a wrong last row is documented to warn only (statement silent): ValueError or an element "
        "that ignores the row are both accepted, an element that depends on it is not.  "
        "Non-trivial: angle within 1e-3 of pi, non-default extraction branch, scale outside [0.1,10], pitch within 0.05 of a pole, "
        "angles outside the principal ranges, or a rejection case; "
        "distinct = (converter, ltype, dtype, layout, branch, regimes, eps_arg, batch position).")
ASSUMPTIONS = ["inputs to the converters are produced by matrix() of a valid element in the same dtype (or a stated perturbation of it)",
               "default rtol = atol = 1e-5; the band between 0.1x and 10x of the tolerance is unconstrained",
               "euler: X ranges over the four group types of the statement (the Lie-algebra types that euler() also documents are "
               "outside it); eps_arg is a small positive threshold (1e-6 .. 0.05)",
               "euler2SO3 on a non-contiguous angle tensor raised RuntimeError (view): found here, repaired in /repo (known_findings F24), asserted"]

CONV = {"SO3": pp.mat2SO3, "SE3": pp.mat2SE3, "Sim3": pp.mat2Sim3, "RxSO3": pp.mat2RxSO3}


def _branch(Rm, atol=1e-5):
    """which of the four extraction formulas the documented algorithm selects (on the transposed matrix)"""
    d0, d1, d2 = Rm[0, 0], Rm[1, 1], Rm[2, 2]
    if d2 < atol:
        return "c0" if d0 > d1 else "c1"
    return "c2" if d0 < -d1 else "c3"


def _layout(M4, layout):
    if layout == "3x3":
        return M4[..., :3, :3]
    if layout == "3x4":
        return M4[..., :3, :4]
    return M4


def _to4(M):
    if M.shape[-1] == 3 and M.shape[-2] == 3:
        out = torch.eye(4, dtype=M.dtype).repeat(M.shape[:-2] + (1, 1))
        out[..., :3, :3] = M
        return out
    return M


class RoundTrip(Sub):
    name = "roundtrip"
    n = {"quick": 12000, "thorough": 300000}

    def valid(self, case):
        return gen.valid_groups(case["ltype"], case["items"], case["dtype"])

    def strategy(self, tier):
        @st.composite
        def s(draw):
            lt = draw(st.sampled_from(R.GROUPS))
            dtype = draw(st.sampled_from(gen.DTYPES))
            shape = draw(gen.lshape(max_rank=2, extents=(1, 2, 3), max_items=3))
            n = int(np.prod(shape)) if shape else 1
            items, regs = [], []
            for _ in range(n):
                X, reg = draw(gen.group(lt, dtype, tcap=1e3, slo=math.log(1e-3), shi=math.log(1e3)))
                items.append(X); regs.append(reg)
            return {"ltype": lt, "dtype": dtype, "lshape": shape, "items": items, "regs": regs,
                    "layout": draw(st.sampled_from(("3x3", "3x4", "4x4"))), "check": draw(st.sampled_from((True, True, False))),
                    "via": draw(st.sampled_from(("mat2", "from_matrix")))}
        return s()

    def oracle(self, case, rec):
        lt, dtype, layout = case["ltype"], case["dtype"], case["layout"]
        eps = tu.EPS[dtype]
        X = tu.lie(lt, case["items"], dtype, shape=case["lshape"], view=tu.view_of(case, "X"))
        rec.label("layout:" + ("contiguous" if X.tensor().is_contiguous() else "noncontiguous_operand"))
        M = X.matrix()
        Min = _layout(_to4(M), layout).contiguous()
        # the matrix argument in another memory layout (same values): column-major storage of every matrix (what R.mT.contiguous().mT
        # or a matrix coming out of a LAPACK routine looks like) for one case in three
        mview = tu.view_of(case, "M")
        if mview != "contiguous":
            Min = Min.mT.contiguous().mT
            rec.label("matrix_arg:column_major")
        Min0 = Min.clone()
        # the documented tolerance arguments, given explicitly and DIFFERENT from each other for one checked case in three: a purely
        # absolute tolerance far above the rounding of a valid matrix (1e3 x eps-level defects) - valid input must still never raise
        # (tolerances handed on in the wrong order / by position would turn atol into 0 - seed C11f)
        tkw = {}
        if case["check"] and tu.view_of(case, "tol") == "strided":
            tkw = {"rtol": 0.0, "atol": 1e-6 if dtype == "float64" else 2e-5}      # far above rounding, far below the smallest stated scale 1e-3 (the rank guard compares the scale with atol)
            rec.label("explicit_rtol0_atol")
        with rec.sut("%s(%s,check=%s%s)" % (case["via"], layout, case["check"], ",rtol=0,atol=%g" % tkw["atol"] if tkw else "")):
            if case["via"] == "mat2":
                Y = CONV[lt](Min, check=case["check"], **tkw)
            else:
                Y = pp.from_matrix(Min, tu.LT[lt], check=case["check"], **tkw)
        rec.label(lt, dtype, layout)
        if not rec.check(isinstance(Y, pp.LieTensor) and Y.ltype == tu.LT[lt] and tuple(Y.shape) == tuple(case["lshape"]) + (R.GDIM[lt],),
                         "type", "converter returned %s shape %s" % (getattr(Y, "ltype", None), tuple(Y.shape))):
            return
        rec.check(torch.equal(Min, Min0), "mutates_input", "converter changed its input matrix")
        Yn = tu.npy(Y).reshape(-1, R.GDIM[lt])
        Mn = tu.npy(_to4(M)).reshape(-1, 4, 4)
        for i, (it, reg) in enumerate(zip(case["items"], case["regs"])):
            t, q, s = R.split_group(lt, it)
            ang = R.quat_angle(q)
            br = _branch(Mn[i][:3, :3] / s)
            rec.label("branch:" + br)
            if ang > math.pi - 1e-3 or br != "c3" or not (0.1 <= s <= 10):
                rec.nt((case["via"], lt, dtype, layout, br, gen.regime_key(reg), case["check"]))
            y = Yn[i]
            if not rec.check(bool(np.all(np.isfinite(y))), "nonfinite:" + lt, "converter gave %s for X=%s" % (y.tolist(), it)):
                continue
            ty, qy, sy = R.split_group(lt, y)
            qn = abs(float(np.linalg.norm(qy)) - 1)
            rec.notes["qn"] = max(rec.notes.get("qn", 0), qn / (16 * eps))
            rec.check(qn <= 16 * eps, "quatnorm:%s:%s" % (lt, dtype), lambda: "| |q|-1 | = %.3g for X=%s (branch %s)" % (qn, it, br))
            want = Mn[i].copy()
            if layout == "3x3" or lt in ("SO3", "RxSO3"):
                want[:3, 3] = 0
            got = R.mat4(lt, y)
            tol = 32 * eps * s
            err = float(np.abs(got[:3, :3] - want[:3, :3]).max())
            rec.notes["rot"] = max(rec.notes.get("rot", 0), err / tol)
            rec.check(err <= tol, "matrix:%s:%s:%s" % (lt, dtype, br), lambda: "matrix of the converted element differs by %.3g (tol %.3g) X=%s branch %s" % (err, tol, it, br))
            if lt in ("SE3", "Sim3"):
                et = float(np.abs(got[:3, 3] - want[:3, 3]).max())
                rec.check(et <= 4 * eps * max(1.0, float(np.abs(want[:3, 3]).max())), "translation:%s" % lt, lambda: "translation changed by %.3g" % et)
            if lt in ("RxSO3", "Sim3"):
                es = abs(sy - s) / s
                rec.notes["scale"] = max(rec.notes.get("scale", 0), es / (32 * eps))
                rec.check(es <= 32 * eps, "scale:%s:%s" % (lt, dtype), lambda: "scale %r vs %r (rel %.3g)" % (sy, s, es))

    def simplify(self, case):
        if len(case["items"]) > 1:
            for i in range(len(case["items"])):
                yield dict(case, lshape=[], items=[case["items"][i]], regs=[case["regs"][i]])


def _Rx(a): c, s = math.cos(a), math.sin(a); return np.array([[1, 0, 0], [0, c, -s], [0, s, c]])
def _Ry(a): c, s = math.cos(a), math.sin(a); return np.array([[c, 0, s], [0, 1, 0], [-s, 0, c]])
def _Rz(a): c, s = math.cos(a), math.sin(a); return np.array([[c, -s, 0], [s, c, 0], [0, 0, 1]])


# pypose defects this module found (none is open any more; the routing is kept): while a key is listed the failing call is counted (label "open:<key>") instead of
# reported, and the case continues on the nearest supported input.  Remove a key to assert it like everything else.
#   euler2SO3_noncontiguous: euler2SO3 does euler.view(-1, 3), which raises RuntimeError for a batched angle tensor whose memory
#     layout is not view-compatible (e.g. torch.randn(3, 2, 3).transpose(0, 1)); reproduction in the docstring of Euler.
KNOWN_OPEN = set()      # euler2SO3_noncontiguous: known_findings F24, repaired in /repo (1a6d029) - asserted

EULER_EPS = (None, None, None, 2e-4, 1e-2, 1e-3, 0.05, 1e-5, 1e-6)     # None: the default (2e-4) is not passed
BAND_K = (0.0, 0.25, 0.5, 0.9, 1.3, 2.0, 4.0, 16.0)                     # 1 - |sin pitch| = k * eps  (k < 1: inside the gimbal band)
TWO_PI = 2 * math.pi


def _quat_of_rpy(r, p, y):
    """quaternion [x y z w] of Rz(y) Ry(p) Rx(r), composed from the three axis rotations with the harness's own product"""
    qx = np.array([math.sin(r / 2), 0.0, 0.0, math.cos(r / 2)])
    qy = np.array([0.0, math.sin(p / 2), 0.0, math.cos(p / 2)])
    qz = np.array([0.0, 0.0, math.sin(y / 2), math.cos(y / 2)])
    return R.qmul(qz, R.qmul(qy, qx))


class Euler(Sub):
    """euler2SO3 on batched angle tensors (any real angles) and X.euler(eps) / pp.euler(X, eps) on batched SO3/SE3/RxSO3/Sim3.

    OPEN euler2SO3_noncontiguous, standalone reproduction:
        import torch, pypose as pp
        a = torch.randn(3, 2, 3, dtype=torch.float64).transpose(0, 1)      # a (2, 3) batch of angle triples, not contiguous
        pp.euler2SO3(a.contiguous())                                       # fine
        pp.euler2SO3(a)                 # RuntimeError: view size is not compatible with input tensor's size and stride ...
    """
    name = "euler"
    n = {"quick": 12000, "thorough": 300000}

    def valid(self, case):
        if case["kind"] == "group":
            return gen.valid_groups(case["ltype"], case["items"], case["dtype"])
        return all(math.isfinite(v) for it in case["items"] for v in it)

    def strategy(self, tier):
        ang = st.one_of(st.floats(-math.pi, math.pi), st.sampled_from((0.0, math.pi, -math.pi, math.pi / 2, -math.pi / 2, 1e-9, -1e-9)))
        pit = st.one_of(st.floats(-math.pi / 2, math.pi / 2),
                        st.sampled_from((0.0, 1.5, -1.5, math.pi / 2 - 0.03, -(math.pi / 2 - 0.03), math.pi / 2, -math.pi / 2, math.pi / 2 - 1e-3)))
        # any real angle is a valid argument of euler2SO3: several turns, both signs, multiples of pi/2 and their neighbourhood
        wide = st.one_of(st.floats(-4 * math.pi, 4 * math.pi), st.floats(-30.0, 30.0),
                         st.builds(lambda k, d, sg: k * math.pi / 2 + sg * d, st.integers(-8, 8),
                                   st.sampled_from((0.0, 1e-9, 1e-4, 0.03)), st.sampled_from((1.0, -1.0))))

        @st.composite
        def band_pitch(draw, eps):
            """pitch with 1 - |sin pitch| = k * eps around the gimbal threshold of this eps, on either pole, any turn"""
            k = draw(st.sampled_from(BAND_K))
            d = math.acos(max(-1.0, 1.0 - k * (2e-4 if eps is None else eps)))
            return draw(st.sampled_from((1.0, -1.0))) * (math.pi / 2 - d) + TWO_PI * draw(st.sampled_from((0, 0, 0, 1, -1))), k

        @st.composite
        def rpy(draw, eps):
            cls = draw(st.sampled_from(("principal", "principal", "wide", "wide", "band")))
            if cls == "principal":
                return [draw(ang), draw(pit), draw(ang)], cls
            if cls == "wide":
                return [draw(wide), draw(wide), draw(wide)], cls
            p, k = draw(band_pitch(eps))
            return [draw(ang), p, draw(ang)], "band:k=%g" % k

        @st.composite
        def s(draw):
            dtype = draw(st.sampled_from(gen.DTYPES))
            kind = draw(st.sampled_from(("angles", "angles", "group", "group", "group")))
            eps = draw(st.sampled_from(EULER_EPS))
            shape = draw(gen.lshape(max_rank=2, extents=(1, 2, 3), max_items=3))
            n = int(np.prod(shape)) if shape else 1
            case = {"dtype": dtype, "kind": kind, "lshape": shape, "eps": eps}
            if kind == "angles":
                layout = draw(st.sampled_from(("contiguous",) * 7 + ("transposed",)))
                if layout == "transposed":          # needs two batch axes longer than one to be a different memory layout
                    case["lshape"] = shape = [draw(st.sampled_from((2, 3))), 2]
                    n = shape[0] * 2
                its = [draw(rpy(eps)) for _ in range(n)]
                case.update(items=[gen.rnd_list(a, dtype) for a, _ in its], regs=[c for _, c in its], layout=layout)
                return case
            lt = draw(st.sampled_from(R.GROUPS))
            # euler() reads the rotation part only: translations (|t| <= 1e3) and scales (1e-3..1e3) are expanded from one drawn
            # integer, the quaternion comes from the regime-directed generator or is aimed at the gimbal threshold
            rs = np.random.RandomState(draw(st.integers(0, 2 ** 31 - 1)))
            items, regs = [], []
            for _ in range(n):
                if draw(st.sampled_from((False, False, True))):
                    # (the generic quaternion kinds hardly ever come near the threshold)
                    p, k = draw(band_pitch(eps))
                    q = _quat_of_rpy(draw(ang), p, draw(ang))
                    q, reg = draw(st.sampled_from((1.0, -1.0))) * q / np.linalg.norm(q), "band:k=%g" % k
                else:
                    q, reg = draw(gen.unit_quat(dtype))
                t = rs.uniform(-1, 1, 3) * 10.0 ** rs.uniform(-3, 3)
                sc = 10.0 ** rs.uniform(-3, 3)
                items.append(gen.rnd_list(R.join_group(lt, t, q, sc).tolist(), dtype)); regs.append({"q": reg})
            case.update(ltype=lt, items=items, regs=regs)
            return case
        return s()

    def oracle(self, case, rec):
        dtype, kind, lshape = case["dtype"], case["kind"], tuple(case["lshape"])
        eps = tu.EPS[dtype]
        rec.label(kind, dtype, "batch" if lshape else "single", "eps:" + ("default" if case["eps"] is None else "%g" % case["eps"]))
        if kind == "angles":
            E = tu.tens(case["items"], dtype).reshape(lshape + (3,))
            if case.get("layout") == "transposed" and len(lshape) == 2:
                E = E.transpose(0, 1).contiguous().transpose(0, 1)        # same values and shape, axes swapped in memory
            rec.label("angles:contig" if E.is_contiguous() else "angles:noncontig")
            try:
                with rec.sut("euler2SO3"):
                    X = pp.euler2SO3(E)
            except Exception:
                if "euler2SO3_noncontiguous" in KNOWN_OPEN and not E.is_contiguous() and rec.fails \
                        and rec.fails[-1][0].startswith("raises:RuntimeError@convert.py:euler2SO3"):
                    rec.fails.pop()
                    rec.label("open:euler2SO3_noncontiguous")
                    with rec.sut("euler2SO3"):
                        X = pp.euler2SO3(E.contiguous())
                else:
                    raise
            if not rec.check(isinstance(X, pp.LieTensor) and X.ltype == pp.SO3_type and tuple(X.shape) == lshape + (4,),
                             "euler2SO3:type", "bad type/shape %s for angles of shape %s" % (tuple(X.shape), tuple(E.shape))):
                return
            Xn = tu.npy(X).reshape(-1, 4)
            for i, ((r, p, y), cls) in enumerate(zip(case["items"], case["regs"])):
                rec.label("angles:" + cls)
                if not rec.check(bool(np.all(np.isfinite(Xn[i]))), "euler2SO3:nonfinite", "euler2SO3(%s) = %s" % ([r, p, y], Xn[i].tolist())):
                    return
                want = _Rz(y) @ _Ry(p) @ _Rx(r)
                err = float(np.abs(R.qrot(Xn[i]) - want).max())
                rec.notes["e2s"] = max(rec.notes.get("e2s", 0), err / (32 * eps))
                rec.check(err <= 32 * eps, "euler2SO3:value:" + dtype, lambda: "euler2SO3(%s) differs from Rz Ry Rx by %.3g" % ([r, p, y], err))
                qn = abs(float(np.linalg.norm(Xn[i])) - 1)
                rec.check(qn <= 8 * eps, "euler2SO3:quatnorm", "quaternion norm off by %.3g" % qn)
                if abs(abs(math.remainder(p, math.pi)) - math.pi / 2) < 0.05:
                    rec.nt(("e2s", dtype, "near_gimbal", round(math.remainder(p, TWO_PI), 2)))
                if max(abs(r), abs(y)) > math.pi or abs(p) > math.pi / 2:
                    rec.nt(("e2s", dtype, "outside_principal", int(r // math.pi), int(p // (math.pi / 2)), int(y // math.pi)))
            lt, quats = "SO3", gen_rnd_rows(Xn, dtype)
            regs = case["regs"]
        else:
            lt = case["ltype"]
            X = tu.lie(lt, case["items"], dtype, shape=lshape)
            quats = [R.split_group(lt, it)[1].tolist() for it in case["items"]]
            regs = [reg["q"] for reg in case["regs"]]
        rec.label("euler:" + lt)
        kw = {} if case["eps"] is None else {"eps": case["eps"]}
        with rec.sut("euler"):
            e = X.euler(**kw)
            e2 = pp.euler(X, **kw)
            Y = pp.euler2SO3(e)
        if not rec.check(torch.is_tensor(e) and not isinstance(e, pp.LieTensor) and tuple(e.shape) == lshape + (3,) and torch.equal(e, e2),
                         "euler:shape", "euler() shape %s for lshape %s / pp.euler differs from the method" % (tuple(e.shape), lshape)):
            return
        en = tu.npy(e).reshape(-1, 3)
        Yn = tu.npy(Y).reshape(-1, 4)
        epsa = 2e-4 if case["eps"] is None else case["eps"]
        tolr = 4 * eps * math.pi
        for i, q in enumerate(quats):
            if not rec.check(bool(np.all(np.isfinite(en[i]))), "euler:nonfinite", "euler(%s) = %s" % (q, en[i].tolist())):
                continue
            qd = np.array(q, dtype=np.float64)
            x, y_, z, w = qd / np.linalg.norm(qd)
            sinp = 2 * (w * y_ - z * x)
            inband = abs(sinp) >= 1 - epsa
            # the statement ties the round trip and the principal ranges to |sin pitch| < 1 - eps; pypose evaluates sin pitch in
            # the working precision, so within max(0.1 eps, 16 eps_dtype) of the threshold either side may be taken: nothing is
            # asserted there (for the default eps this is the former 1 - 2.2e-4)
            if abs(sinp) >= 1 - max(1.1 * epsa, epsa + 16 * eps):
                rec.label("gimbal" if inband else "threshold_margin")
                if inband and (abs(en[i][0]) > math.pi + tolr or abs(en[i][2]) > math.pi + tolr):
                    rec.label("gimbal:angle_outside_principal")      # (roll = 0, yaw = -+2 atan2(x, w) in [-2pi, 2pi]; not excluded by the text)
                continue
            rec.label("regular")
            rec.check(abs(en[i][0]) <= math.pi + tolr and abs(en[i][1]) <= math.pi / 2 + tolr and abs(en[i][2]) <= math.pi + tolr,
                      "euler:range", "angles %s outside principal ranges (q=%s)" % (en[i].tolist(), q))
            cosp = math.sqrt(max(1 - sinp * sinp, 0.0))
            # pitch = asin(t2), roll / yaw = atan2 of two numbers of size cos pitch: absolute errors of a few eps become
            # angle errors of a few eps / cos pitch; cos pitch >= sqrt(2 eps_arg) outside the band (0.02 for the default)
            tol = 64 * eps / max(cosp, math.sqrt(2 * epsa))
            err = float(np.abs(R.qrot(Yn[i]) - R.qrot(qd)).max())
            rec.notes["rt"] = max(rec.notes.get("rt", 0), err / tol)
            rec.check(err <= tol, "euler:roundtrip:" + dtype, lambda: "euler2SO3(X.euler(%s)) differs from X by %.3g (tol %.3g) q=%s euler=%s"
                      % (case["eps"], err, tol, q, en[i].tolist()))
            if kind == "group" and (abs(sinp) > 0.99 or "pi" in regs[i] or "neg" in regs[i] or "band" in regs[i]):
                rec.nt(("rt", lt, dtype, regs[i], round(sinp, 2), case["eps"]))
            elif kind == "angles":
                rec.nt(("rt", dtype, regs[i], int(10 * math.asin(max(-1.0, min(1.0, sinp)))), case["eps"]))

    def simplify(self, case):
        if len(case["items"]) > 1:
            for i in range(len(case["items"])):
                yield dict(case, lshape=[], items=[case["items"][i]], regs=[case["regs"][i]])
        if case["eps"] is not None:
            yield dict(case, eps=None)


def gen_rnd_rows(A, dtype):
    return [gen.rnd_list(row.tolist(), dtype) for row in A]


REJECT_KINDS = ("shear_big", "shear_small", "reflect", "rank", "shear_big_batch", "scale_big", "scale_big", "scale_small",
                "nonfinite", "bottom_row")


def _valid_elements(lt, dtype, n, seed):
    """n valid group elements expanded from one integer (the valid neighbours of the judged matrix in a batch)"""
    rs = np.random.RandomState(seed)
    out = []
    for _ in range(n):
        q = rs.randn(4)
        out.append(gen.rnd_list(R.join_group(lt, rs.uniform(-10, 10, 3), q / np.linalg.norm(q), 10.0 ** rs.uniform(-2, 2)).tolist(), dtype))
    return out


class Reject(Sub):
    name = "reject"
    n = {"quick": 6000, "thorough": 120000}

    def valid(self, case):
        return gen.valid_group(case["ltype"], case["X"], case["dtype"]) and gen.valid_groups(case["ltype"], case.get("others", []), case["dtype"])

    def strategy(self, tier):
        @st.composite
        def s(draw):
            lt = draw(st.sampled_from(R.GROUPS))
            dtype = draw(st.sampled_from(gen.DTYPES))
            X, reg = draw(gen.group(lt, dtype, tcap=10.0, slo=math.log(1e-2), shi=math.log(1e2)))
            kind = draw(st.sampled_from(REJECT_KINDS))
            # the judged matrix sits at position `pos` of a batch of nb matrices (nb = 1: unbatched), the others are valid
            nb = draw(st.sampled_from((1, 1, 1, 2, 3, 4)))
            if kind == "shear_big_batch":
                nb = max(nb, 2)
            return {"ltype": lt, "dtype": dtype, "X": X, "reg": reg, "kind": kind,
                    "layout": "4x4" if kind == "bottom_row" else draw(st.sampled_from(("3x3", "3x4", "4x4"))),
                    "axes": draw(st.permutations((0, 1, 2))), "mag": draw(st.floats(1.0, 8.0)),
                    "sgn": draw(st.sampled_from((1.0, -1.0))),
                    "coarse": draw(st.sampled_from((None, None, 0.5, 2.0, 1e-2, 1e2))),
                    "bad": draw(st.sampled_from(("nan", "nan", "inf", "-inf"))),
                    "others": _valid_elements(lt, dtype, nb - 1, draw(st.integers(0, 2 ** 31 - 1))) if nb > 1 else [],
                    "pos": draw(st.integers(0, nb - 1)),
                    "via": draw(st.sampled_from(("mat2", "from_matrix")))}
        return s()

    def oracle(self, case, rec):
        lt, dtype, kind = case["ltype"], case["dtype"], case["kind"]
        t, q, s = R.split_group(lt, case["X"])
        Rm = R.qrot(q)
        i, j, _ = case["axes"]
        S = np.zeros((3, 3)); S[i, i] = 1.0; S[j, j] = -1.0        # traceless symmetric: det unchanged to first order
        tol_stated = 2e-5                                            # atol + rtol*1 on the diagonal of R R^T
        scaled_ok = lt in ("RxSO3", "Sim3")                          # an isotropic scale is part of these groups
        s_want = s
        bottom = [0.0, 0.0, 0.0, 1.0]
        if kind.startswith("shear_big"):
            delta = 10 * tol_stated * case["mag"]                    # defect of R R^T ~ 2*delta >= 20x tolerance
            B = Rm @ (np.eye(3) + delta * S)
        elif kind == "shear_small":
            delta = 0.05 * 1e-5 / case["mag"]                        # defect 2*delta <= 0.1 * atol (off-diagonal tolerance 1e-5)
            if dtype == "float32":
                delta = 0.0                                           # float32 rounding alone is ~1e-7; keep the valid matrix
            B = Rm @ (np.eye(3) + delta * S)
        elif kind == "scale_big":
            # c R with c != 1: R R^T - I = (c^2 - 1) I, |c^2 - 1| >= 2*delta*(1 - delta/2) >= 19x tolerance, det - 1 ~ 3 delta;
            # or a coarse factor (0.5, 2, 0.01, 100).  Not a rotation - but a valid element of RxSO3 / Sim3 with scale c s
            c = case.get("coarse") or 1.0 + case.get("sgn", 1.0) * 10 * tol_stated * case["mag"]
            if scaled_ok and not (1e-3 <= c * s <= 1e3):
                c = 1.0 / c                                           # stay inside the stated scale range [1e-3, 1e3]
            B = c * Rm
            s_want = c * s
        elif kind == "scale_small":
            # |c^2 - 1| ~ 2 delta = 1e-6 / mag <= 0.05 x (atol + rtol) and |c^3 - 1| ~ 1.5e-6 / mag <= 0.075 x; float32 rounding
            # of the entries adds <= 3 eps32 = 3.6e-7 to either: together below 0.1 x the stated tolerance
            c = 1.0 + case.get("sgn", 1.0) * 0.05 * 1e-5 / case["mag"]
            B = c * Rm
            s_want = c * s
        elif kind == "reflect":
            D = np.eye(3); D[i, i] = -1.0
            B = Rm @ D
        elif kind == "rank":
            D = np.eye(3); D[i, i] = 0.0
            B = Rm @ D
        else:                       # nonfinite, bottom_row: the rotation block itself is valid
            B = Rm
        M = np.eye(4); M[:3, :3] = s * B; M[:3, 3] = t
        if kind == "nonfinite":
            M[i, j] = {"nan": math.nan, "inf": math.inf, "-inf": -math.inf}[case.get("bad", "nan")]
        if kind == "bottom_row":
            bottom[j if case["mag"] < 4.5 else 3] += case.get("sgn", 1.0) * case["mag"]      # off by >= 1 in one entry
            M[3, :] = bottom
        mats = [R.mat4(lt, o) for o in case.get("others", [])]
        if kind == "shear_big_batch" and not mats:      # one bad item inside a batch of valid ones (cases saved before `others`)
            good = np.eye(4); good[:3, :3] = s * Rm; good[:3, 3] = t
            mats, pos = [good], 1
        else:
            pos = case.get("pos", 0)
        mats.insert(pos, M)
        Mt = torch.stack([_layout(torch.tensor(m, dtype=tu.TD[dtype]), case["layout"]) for m in mats], 0)
        if len(mats) == 1:
            Mt = Mt[0]
        must_raise = kind in ("shear_big", "shear_big_batch", "reflect", "rank", "nonfinite") or (kind == "scale_big" and not scaled_ok)
        rec.label(lt, dtype, kind, "batch:%d" % len(mats), "pos:%d" % pos if len(mats) > 1 else "unbatched",
                  "expect:" + ("ValueError" if must_raise else "either" if kind == "bottom_row" else "accept"))
        rec.nt(("reject", lt, dtype, kind, case["layout"], case["via"], len(mats), pos))
        conv = (lambda m: CONV[lt](m, check=True)) if case["via"] == "mat2" else (lambda m: pp.from_matrix(m, tu.LT[lt], check=True))
        if kind == "bottom_row":
            # documented: the rotation block decides validity, the last row "is not used in the computation" and only triggers a
            # warning (mat2SE3 / mat2Sim3).  The statement is silent, so a ValueError is accepted as well - but an element
            # that depends on the bad row is a wrong answer.
            with warnings.catch_warnings(record=True) as wl:
                warnings.simplefilter("always")
                try:
                    Y = conv(Mt)
                except ValueError:
                    rec.label("bottom_row:raised")
                    return
                except Exception as e:
                    rec.fail("reject:wrong_exception:" + kind, "%s input raised %s: %s" % (kind, type(e).__name__, e))
                    return
            rec.label("bottom_row:warned" if wl else "bottom_row:silent")
            M[3, :] = [0.0, 0.0, 0.0, 1.0]
            self._same(rec, lt, dtype, Y, len(mats), pos, M, s, kind, case["layout"])
            return
        if not must_raise:
            with rec.sut("check=True on a valid %s matrix" % lt):
                Y = conv(Mt)
            if kind.startswith("scale") and scaled_ok:      # (for SO3 / SE3 the accepted matrix is only nearly a rotation)
                self._same(rec, lt, dtype, Y, len(mats), pos, M, s_want, kind, case["layout"])
            return
        try:
            Y = conv(Mt)
        except ValueError:
            return
        except Exception as e:   # any other loud failure is still not a silent acceptance, but the statement says ValueError
            rec.fail("reject:wrong_exception:" + kind, "%s input raised %s instead of ValueError: %s" % (kind, type(e).__name__, e))
            return
        rec.fail("reject:accepted:%s:%s" % (kind, lt), "check=True accepted a %s matrix (%s, %s, item %d of %d): returned %s"
                 % (kind, lt, case["layout"], pos, len(mats), tu.npy(Y).tolist()))

    @staticmethod
    def _same(rec, lt, dtype, Y, nb, pos, M, s, kind, layout):
        """the element returned for batch item `pos` has the matrix M (scale s): the round-trip tolerances of `roundtrip`, plus the
        rounding of the float64 matrix entries to the dtype (eps/2 each: 1.5 eps on the scale, 4 eps s on the rotation block)"""
        eps = tu.EPS[dtype]
        y = tu.npy(Y).reshape(-1, R.GDIM[lt])
        if not rec.check(y.shape[0] == nb and bool(np.all(np.isfinite(y[pos]))), "accept:nonfinite:" + kind, "converter gave %s" % y.tolist()):
            return
        got = R.mat4(lt, y[pos])
        err = float(np.abs(got[:3, :3] - M[:3, :3]).max())
        rec.notes["acc_rot"] = max(rec.notes.get("acc_rot", 0), err / (36 * eps * s))
        rec.check(err <= 36 * eps * s, "accept:matrix:%s:%s" % (kind, lt), lambda: "accepted %s matrix: element differs from it by %.3g (tol %.3g)" % (kind, err, 36 * eps * s))
        if lt in ("SE3", "Sim3"):
            want_t = M[:3, 3] if layout != "3x3" else np.zeros(3)
            et = float(np.abs(got[:3, 3] - want_t).max())
            rec.check(et <= 4 * eps * max(1.0, float(np.abs(want_t).max())), "accept:translation:%s:%s" % (kind, lt),
                      lambda: "accepted %s matrix: translation changed by %.3g" % (kind, et))
        if lt in ("RxSO3", "Sim3"):
            es = abs(R.split_group(lt, y[pos])[2] - s) / s
            rec.notes["acc_scale"] = max(rec.notes.get("acc_scale", 0), es / (34 * eps))
            rec.check(es <= 34 * eps, "accept:scale:%s:%s" % (kind, lt), lambda: "accepted %s matrix: scale off by %.3g relative" % (kind, es))


SUBS = [RoundTrip(), Euler(), Reject()]


def selftest():
    # the branch recomputation matches the documented algorithm on the four canonical rotations
    assert _branch(np.diag([1.0, -1.0, -1.0])) == "c0" and _branch(np.diag([-1.0, 1.0, -1.0])) == "c1"
    assert _branch(np.diag([-1.0, -1.0, 1.0])) == "c2" and _branch(np.eye(3)) == "c3"
    a, b, c = 0.3, -0.7, 1.9
    q = np.array([math.sin(a / 2), 0, 0, math.cos(a / 2)])
    assert np.allclose(R.qrot(q), _Rx(a))
