"""setup_cmd: make sure hypothesis (and mpmath/sympy/numpy, normally already in /venv) are importable, offline."""
import os, sys, subprocess
ROOT = os.path.dirname(os.path.dirname(os.path.abspath(__file__)))
DEPS = os.path.join(ROOT, ".deps")

def main():
    missing = []
    for m in ("hypothesis", "mpmath", "sympy", "numpy"):
        try:
            __import__(m)
        except ImportError:
            missing.append(m)
    if missing:
        os.makedirs(DEPS, exist_ok=True)
        rc = subprocess.call([sys.executable, "-m", "pip", "install", "-q", "--no-index", "--find-links",
                              "/opt/veriftools/wheels", "--target", DEPS] + missing)
        if rc != 0:
            print("setup: could not install", missing)
            return 1
    # atheris (coverage-guided campaigns of the thorough tier) lives in .deps; optional: the checks work without it
    sys.path.append(DEPS)
    try:
        import atheris  # noqa
    except ImportError:
        os.makedirs(DEPS, exist_ok=True)
        subprocess.call([sys.executable, "-m", "pip", "install", "-q", "--no-index", "--find-links",
                         "/opt/veriftools/wheels", "--target", DEPS, "atheris"])
    import torch, pypose  # noqa
    print("setup ok; pypose from", os.path.dirname(pypose.__file__))
    return 0

if __name__ == "__main__":
    sys.exit(main())
