"""Reference models for property C17 (numpy float64, written from the mathematical definitions).

* optimal rigid alignment by Horn's closed form (unit quaternion = eigenvector of the largest eigenvalue
  of the symmetric 4x4 matrix N built from the cross-covariance) -- B.K.P. Horn, JOSA A 4(4), 1987;
* optimal similarity alignment for  sum_i | y_i - (s R x_i + t) |^2 : the rotation maximising
  tr(R^T sum y_c x_c^T) does not depend on s, so R is Horn's rotation, s = sum y_c.(R x_c) / sum |x_c|^2
  and t = ybar - s R xbar;
* a second, independent formulation (Kabsch / Umeyama: SVD of the cross-covariance with the
  diag(1,1,det) correction) used only by the self-test;
* sum of squared residuals of an arbitrary (s, R, t) (plain, and in the centred form
  sum |y_c - s R x_c|^2 + N |t - (ybar - s R xbar)|^2, which is the same number but is evaluated without the
  cancellation that far-from-origin clouds cause), brute-force mean squared closest-point distance,
  pinhole projection  u = fx X/Z + cx, v = fy Y/Z + cy.

Never calls pypose or torch.
"""
import math
import numpy as np


def qrot_wxyz(q):
    """rotation matrix of the quaternion (w, x, y, z) / |q|"""
    w, x, y, z = np.asarray(q, dtype=np.float64) / np.linalg.norm(q)
    return np.array([
        [w*w + x*x - y*y - z*z, 2*(x*y - w*z), 2*(x*z + w*y)],
        [2*(x*y + w*z), w*w - x*x + y*y - z*z, 2*(y*z - w*x)],
        [2*(x*z - w*y), 2*(y*z + w*x), w*w - x*x - y*y + z*z]])


def sse(X, Y, s, R, t):
    """sum_i | y_i - (s R x_i + t) |^2"""
    D = Y - (s * (X @ R.T) + t)
    return float((D * D).sum())


def residuals(X, Y, s, R, t):
    """per-point | y_i - (s R x_i + t) |"""
    D = Y - (s * (X @ R.T) + t)
    return np.sqrt((D * D).sum(-1))


def sse_centred(X, Y, s, R, t):
    """sum_i | y_i - (s R x_i + t) |^2 evaluated as  sum_i |y_c,i - s R x_c,i|^2 + N |t - (ybar - s R xbar)|^2
    (identical in exact arithmetic because the centred residuals sum to zero; the evaluation error is
    eps64 * (centred radii) per point instead of eps64 * (distance from the origin))"""
    X = np.asarray(X, dtype=np.float64)
    Y = np.asarray(Y, dtype=np.float64)
    xb, yb = X.mean(0), Y.mean(0)
    D = (Y - yb) - s * ((X - xb) @ R.T)
    dt = np.asarray(t, dtype=np.float64) - (yb - s * (R @ xb))
    return float((D * D).sum() + len(X) * (dt * dt).sum())


def horn_rotation(Xc, Yc):
    """rotation R maximising sum_i y_i . (R x_i) for centred sets (rows are points)"""
    S = Xc.T @ Yc                     # S[a, b] = sum_i x_a y_b
    Sxx, Sxy, Sxz = S[0]
    Syx, Syy, Syz = S[1]
    Szx, Szy, Szz = S[2]
    Nm = np.array([
        [Sxx + Syy + Szz, Syz - Szy, Szx - Sxz, Sxy - Syx],
        [Syz - Szy, Sxx - Syy - Szz, Sxy + Syx, Szx + Sxz],
        [Szx - Sxz, Sxy + Syx, -Sxx + Syy - Szz, Syz + Szy],
        [Sxy - Syx, Szx + Sxz, Syz + Szy, -Sxx - Syy + Szz]])
    w, V = np.linalg.eigh(Nm)
    return qrot_wxyz(V[:, -1]), float(w[-1]), float(w[-2])


def optimum(X, Y, mode="rigid"):
    """optimal transform of class `mode` in {"rigid", "sim"}: dict(s, R, t, sse, sse_c, gap, l1, l2)
    gap = (largest - second largest eigenvalue of N) / largest: 0 means a non-unique optimum; l1, l2 are the two
    eigenvalues themselves (l1 - l2 = 2 (sigma_2 + d sigma_3) of the cross-covariance, d = sign of its determinant:
    twice the smallest stiffness of the rotation); sse_c = the same optimum SSE evaluated on the centred sets."""
    X = np.asarray(X, dtype=np.float64)
    Y = np.asarray(Y, dtype=np.float64)
    xb, yb = X.mean(0), Y.mean(0)
    Xc, Yc = X - xb, Y - yb
    R, l1, l2 = horn_rotation(Xc, Yc)
    s = 1.0
    if mode == "sim":
        den = float((Xc * Xc).sum())
        s = float((Yc * (Xc @ R.T)).sum()) / den if den > 0 else 0.0
        s = max(s, 0.0)
    t = yb - s * (R @ xb)
    Dc = Yc - s * (Xc @ R.T)
    return {"s": s, "R": R, "t": t, "sse": sse(X, Y, s, R, t), "sse_c": float((Dc * Dc).sum()),
            "gap": (l1 - l2) / l1 if l1 > 0 else 0.0, "l1": l1, "l2": l2}


def kabsch_umeyama(X, Y, mode="rigid"):
    """second formulation: SVD of sum y_c x_c^T with the diag(1,1,det(U V^T)) correction"""
    X = np.asarray(X, dtype=np.float64)
    Y = np.asarray(Y, dtype=np.float64)
    xb, yb = X.mean(0), Y.mean(0)
    Xc, Yc = X - xb, Y - yb
    H = Yc.T @ Xc
    U, D, Vt = np.linalg.svd(H)
    d = np.ones(3)
    if np.linalg.det(U @ Vt) < 0:
        d[2] = -1.0
    R = U @ np.diag(d) @ Vt
    s = 1.0
    if mode == "sim":
        den = float((Xc * Xc).sum())
        s = float((D * d).sum()) / den if den > 0 else 0.0
    t = yb - s * (R @ xb)
    return {"s": s, "R": R, "t": t, "sse": sse(X, Y, s, R, t), "refl": bool(d[2] < 0), "sv": D}


def scatter_stats(X):
    """principal scatter of a point set: eigenvalues (descending) of sum x_c x_c^T, principal axis,
    max |x_c|, max distance from the principal line"""
    X = np.asarray(X, dtype=np.float64)
    Xc = X - X.mean(0)
    w, V = np.linalg.eigh(Xc.T @ Xc)
    w = np.maximum(w[::-1], 0.0)
    u1 = V[:, -1]
    perp = Xc - np.outer(Xc @ u1, u1)
    return {"sig": w, "u1": u1, "rmax": float(np.sqrt((Xc * Xc).sum(-1)).max()),
            "dperp": float(np.sqrt((perp * perp).sum(-1)).max()),
            "dplane": float(np.abs(Xc @ V[:, 0]).max())}


def closest_sq(A, B):
    """for every row of A the squared distance to the closest row of B, and its index"""
    d2 = ((A[:, None, :] - B[None, :, :]) ** 2).sum(-1)
    idx = d2.argmin(-1)
    return d2[np.arange(len(A)), idx], idx, d2


def closest_mse(A, B):
    return float(closest_sq(A, B)[0].mean())


def project(P, R, t, fx, fy, cx, cy):
    """pinhole projection of world points P (N,3) seen by the camera with extrinsics (R, t):
    returns pixels (N,2) and depths (N,)"""
    Pc = P @ R.T + t
    z = Pc[:, 2]
    return np.stack([fx * Pc[:, 0] / z + cx, fy * Pc[:, 1] / z + cy], -1), z


def dlt_condition(P, uvn):
    """conditioning of the camera-resection (PnP) problem: ratio of the largest to the smallest non-trivial singular
    value of the row-normalised 2N x 12 DLT matrix  [X~ 0 -u X~; 0 X~ -v X~]  (X~ = centred, unit-RMS homogeneous world
    points, (u, v) = normalised image coordinates).  The matrix has a one-dimensional null space (the true camera);
    the ratio is ~1e1..1e2 for well-spread points and grows without bound near critical configurations."""
    P = np.asarray(P, dtype=np.float64)
    Pc = P - P.mean(0)
    Pc = Pc / math.sqrt(float((Pc * Pc).sum(-1).mean()))
    N = len(P)
    Ah = np.concatenate([Pc, np.ones((N, 1))], 1)
    Z = np.zeros((N, 4))
    D = np.concatenate([np.concatenate([Ah, Z, -uvn[:, :1] * Ah], 1),
                        np.concatenate([Z, Ah, -uvn[:, 1:] * Ah], 1)], 0)
    D = D / np.linalg.norm(D, axis=1, keepdims=True)
    sv = np.linalg.svd(D, compute_uv=False)
    return float(sv[0] / sv[10]) if sv[10] > 0 else float("inf")


def rot_from_axis_angle(axis, angle):
    a = np.asarray(axis, dtype=np.float64)
    a = a / np.linalg.norm(a)
    K = np.array([[0, -a[2], a[1]], [a[2], 0, -a[0]], [-a[1], a[0], 0]])
    return np.eye(3) + math.sin(angle) * K + (1 - math.cos(angle)) * (K @ K)
