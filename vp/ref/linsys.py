"""Reference models for C10: matrices with a prescribed singular value decomposition (so that the
minimum-norm least-squares solution is known by construction), SPD matrices with a prescribed
spectrum, block-sparse patterns.  numpy only; everything is a pure function of a RandomState.
"""
import numpy as np


def orth(rs, n):
    """Haar-ish orthogonal n x n matrix: Q of a seeded Gaussian, column signs fixed by diag(R)."""
    if n == 0:
        return np.zeros((0, 0))
    q, r = np.linalg.qr(rs.randn(n, n))
    d = np.sign(np.diag(r))
    d[d == 0] = 1.0
    return q * d


def householder_orth(rs, n, k=2):
    """product of k Householder reflectors (structured orthogonal factor: few mixing directions)"""
    Q = np.eye(n)
    for _ in range(k):
        v = rs.randn(n)
        nv = np.linalg.norm(v)
        if nv == 0:
            continue
        v /= nv
        Q = Q - 2.0 * np.outer(Q @ v, v)
    return Q


def spectrum(rs, r, cond, mode):
    """r values in [1/cond, 1], the largest is 1 and (r >= 2) the smallest is exactly 1/cond"""
    if r == 0:
        return np.zeros(0)
    if r == 1:
        return np.ones(1)
    lo = 1.0 / cond
    if mode == "geom":
        s = lo ** (np.arange(r) / (r - 1.0))
    elif mode == "one_small":
        s = np.ones(r)
        s[-1] = lo
    elif mode == "one_large":
        s = np.full(r, lo)
        s[0] = 1.0
    elif mode == "equal_pairs":      # repeated singular values (singular vectors ill-determined, pinv is not)
        s = lo ** (np.floor(np.arange(r) / 2.0) * 2.0 / max(1.0, r - 1.0))
        s[0], s[-1] = 1.0, lo
    else:                            # "rand": log-uniform
        s = np.exp(rs.uniform(np.log(lo), 0.0, size=r))
        s[0], s[-1] = 1.0, lo
    s = np.sort(s)[::-1].copy()
    s[0], s[-1] = 1.0, lo
    return s


class SVDSystem:
    """A = U[:, :r] diag(s) V[:, :r]^T  (m x n, rank r) with orthogonal U (m x m), V (n x n)."""

    def __init__(self, rs, m, n, r, cond, mode="geom", scale=1.0, factor="qr"):
        mk = orth if factor == "qr" else householder_orth
        self.m, self.n, self.r = m, n, r
        self.U, self.V = mk(rs, m), mk(rs, n)
        self.s = spectrum(rs, r, cond, mode) * scale
        self.A = (self.U[:, :r] * self.s) @ self.V[:, :r].T if r else np.zeros((m, n))

    def rhs(self, rs, kind, scale=1.0):
        """b = U[:, :r] c + U[:, r:] d ; kind: range | mixed | orth | random | zero"""
        m, r = self.m, self.r
        c = rs.randn(r)
        d = rs.randn(m - r)
        if kind == "range":
            d[:] = 0.0
        elif kind == "orth":
            c[:] = 0.0
        elif kind == "zero":
            c[:] = 0.0
            d[:] = 0.0
        elif kind == "xtrue":         # b = A x_true: coefficients proportional to the singular values
            c = self.s * rs.randn(r) / (self.s[0] if r else 1.0)
            d[:] = 0.0
        c, d = c * scale, d * scale
        b = self.U[:, :r] @ c + self.U[:, r:] @ d
        return b, c, d

    def xstar(self, c):
        """minimum-norm least-squares solution for b = U_r c + U_perp d"""
        if self.r == 0:
            return np.zeros(self.n)
        return self.V[:, :self.r] @ (c / self.s)


def spd(rs, n, cond, mode="geom", scale=1.0, factor="qr"):
    """Q diag(lam) Q^T, symmetrised exactly; returns A, Q, lam (descending, lam[0]=scale)"""
    Q = (orth if factor == "qr" else householder_orth)(rs, n)
    lam = spectrum(rs, n, cond, mode) * scale
    A = (Q * lam) @ Q.T
    A = 0.5 * (A + A.T)
    return A, Q, lam


def blockdiag_spd(rs, n, cond, mode="geom", scale=1.0, perm=True):
    """sparse SPD matrix with the prescribed spectrum: block diagonal of Q_k diag(lam_k) Q_k^T blocks
    (sizes 1..4), optionally symmetrically permuted.  Returns A, Q (orthogonal, A = Q diag(lam) Q^T), lam."""
    lam = spectrum(rs, n, cond, mode) * scale
    lam = lam[rs.permutation(n)]
    Q = np.zeros((n, n))
    i = 0
    while i < n:
        k = min(n - i, int(rs.randint(1, 5)))
        Q[i:i + k, i:i + k] = orth(rs, k)
        i += k
    if perm:
        p = rs.permutation(n)
        Q = Q[p, :]
    A = (Q * lam) @ Q.T
    A = 0.5 * (A + A.T)
    A[np.abs(Q) @ np.abs(Q.T) == 0] = 0.0
    return A, Q, lam


def block_pattern(rs, br, bc, density, style):
    """boolean br x bc mask of stored blocks"""
    if br == 0 or bc == 0:
        return np.zeros((br, bc), dtype=bool)
    if style == "full":
        mask = np.ones((br, bc), dtype=bool)
    elif style == "empty":
        mask = np.zeros((br, bc), dtype=bool)
    elif style == "diag":
        mask = np.eye(br, bc, dtype=bool)
    elif style == "band":
        i, j = np.indices((br, bc))
        mask = np.abs(i - j) <= 1
    elif style == "last":            # only the last block of every row / first of every column region
        mask = np.zeros((br, bc), dtype=bool)
        mask[:, -1] = True
    elif style == "first":
        mask = np.zeros((br, bc), dtype=bool)
        mask[:, 0] = True
    else:
        mask = rs.rand(br, bc) < density
    if style in ("rand_emptyrow", ) and br:
        mask = rs.rand(br, bc) < density
        mask[rs.randint(br), :] = False
    if style in ("rand_emptycol", ) and bc:
        mask = rs.rand(br, bc) < density
        mask[:, rs.randint(bc)] = False
    return mask


def block_values(rs, mask, bm, bn, integer, zero_prob=0.0):
    """(br, bc, bm, bn) array of block values, zero where mask is False; stored blocks may contain zeros
    (and, with probability zero_prob, be entirely zero: an explicitly stored zero block)"""
    br, bc = mask.shape
    if integer:
        vals = rs.randint(-4, 5, size=(br, bc, bm, bn)).astype(np.float64)
    else:
        vals = rs.randn(br, bc, bm, bn)
    if zero_prob > 0:
        vals[rs.rand(br, bc) < zero_prob] = 0.0
    vals *= mask[:, :, None, None]
    return vals


def to_dense(vals):
    br, bc, bm, bn = vals.shape
    return vals.transpose(0, 2, 1, 3).reshape(br * bm, bc * bn)


def compressed_rows(mask):
    """crow, col index arrays of a boolean mask (row-compressed, sorted)"""
    br, bc = mask.shape
    crow = np.zeros(br + 1, dtype=np.int64)
    crow[1:] = np.cumsum(mask.sum(axis=1))
    ii, jj = np.nonzero(mask)
    return crow, jj.astype(np.int64), ii.astype(np.int64)
