"""Reference robust kernels: rho(x), rho'(x), rho''(x) in 40-digit mpmath, written from the documented
closed forms (pypose.optim.kernel docstrings) and from the definitions of the user kernels of C09.

A kernel is described by plain JSON  {"k": name, "p": [params]}.  `Ref(spec)` gives
    rho(x), d1(x), d2(x)   mp.mpf -> mp.mpf
    T                      natural threshold of the input x=|R|^2 (delta^2, 1/delta^2, a, m, 1/c ...)
    vscale                 absolute scale of the terms that cancel in the documented formula (value tolerance):
                           delta^2 (Huber, PseudoHuber, Cauchy), 2 (SoftLOne), 2(a+|b|) (Tolerant), 0 (Arctan, Scale);
                           user kernels: 2 sqrt(c) (sqrt), a m^3 (cubic), 0 otherwise
    psens(x)               relative sensitivity of rho' to an eps-rounding of the parameters / of (x-a)/b
    d2noise(x)             absolute size of the terms that CANCEL when rho'' is evaluated by differentiating the kernel's own
                           formula twice (what autograd does): the computed rho'' carries an absolute error ~ eps * d2noise
    d2_range(x, t, cn)     [lo, hi] containing every rho'' a dtype evaluation may see: rho'' over x(1 +- t), widened by cn*d2noise
`family`: builtin | pos (rho''>0) | lin (rho''=0) | neg (rho''<0) | mixed (sign of rho'' depends on x).
Nothing here calls pypose.
"""
import mpmath as mp

DPS = 40
BUILTIN = ("Huber", "PseudoHuber", "Cauchy", "SoftLOne", "Arctan", "Tolerant", "Scale")
USER = {"quad": "pos", "exp": "pos", "xlog1p": "pos", "ident": "lin", "lin": "lin",
        "log1p": "neg", "sqrt": "neg", "cubic": "mixed", "sine": "mixed", "chuber": "mixed"}


def family(spec):
    return "builtin" if spec["k"] in BUILTIN else USER[spec["k"]]


def in_domain(spec):
    """parameters inside the documented / stated domain (used to reject over-shrunk cases)"""
    import math
    k, p = spec["k"], [float(v) for v in spec["p"]]
    if not all(math.isfinite(v) for v in p):
        return False
    if k == "Tolerant":
        return p[0] > 0 and p[1] < 0 and p[0] / -p[1] <= 50 * (1 + 1e-12) and 5e-4 <= p[0] <= 1e3
    if k == "Scale":
        return 0 < p[0] <= 1
    if k == "sine":
        return 0 < p[0] <= 0.8 and 1e-2 <= p[1] <= 1e2
    if k == "cubic":
        return p[1] > 0 and 0 < p[0] * p[1] ** 2 <= 4
    if k == "chuber":
        return p[1] > 0 and 0 < p[0] * p[1] <= 10
    return all(5e-4 <= v <= 1e3 for v in p)


class Ref:
    def __init__(self, spec):
        self.k = spec["k"]
        self.p = [mp.mpf(float(v)) for v in spec["p"]]     # exact values of the python floats
        k, p = self.k, self.p
        one = mp.mpf(1)
        self.vscale = 0.0
        with mp.workdps(DPS):
            if k in ("Huber", "PseudoHuber", "Cauchy", "Arctan"):
                self.T = p[0] ** 2
                self.vscale = float(self.T) if k != "Arctan" else 0.0
            elif k == "SoftLOne":
                self.T, self.vscale = 1 / p[0] ** 2, 2.0
            elif k == "Tolerant":
                self.T, self.vscale = p[0], 2 * float(p[0] + abs(p[1]))
            elif k in ("Scale", "ident", "lin", "xlog1p"):
                self.T = one
            elif k in ("quad", "exp", "log1p", "sine"):
                self.T = 1 / p[0] if k != "sine" else 1 / p[1]
            elif k == "sqrt":
                self.T, self.vscale = p[0], 2 * float(mp.sqrt(p[0]))        # sqrt(x+c) - sqrt(c)
            elif k in ("cubic", "chuber"):
                self.T = p[1]
                self.vscale = float(p[0] * p[1] ** 3) if k == "cubic" else 0.0      # a ((x-m)^3 + m^3) / 3
            else:
                raise ValueError(k)

    # ---- closed forms -------------------------------------------------------------------
    def rho(self, x):
        k, p = self.k, self.p
        if k == "Huber":
            return x if mp.sqrt(x) < p[0] else 2 * p[0] * mp.sqrt(x) - p[0] ** 2
        if k == "PseudoHuber":
            return 2 * p[0] ** 2 * (mp.sqrt(1 + x / p[0] ** 2) - 1)
        if k == "Cauchy":
            return p[0] ** 2 * mp.log(1 + x / p[0] ** 2)
        if k == "SoftLOne":
            return 2 * (p[0] * mp.sqrt(1 / p[0] ** 2 + x) - 1)
        if k == "Arctan":
            return p[0] ** 2 * mp.atan(x / p[0] ** 2)
        if k == "Tolerant":
            a, b = p
            return b * mp.log(1 + mp.exp((x - a) / b)) - b * mp.log(1 + mp.exp(-a / b))
        if k in ("Scale", "lin"):
            return p[0] * x
        if k == "ident":
            return x
        if k == "quad":
            return x + p[0] * x ** 2 / 2
        if k == "exp":
            return mp.expm1(p[0] * x)
        if k == "xlog1p":
            return x * mp.log1p(x)
        if k == "log1p":
            return mp.log1p(p[0] * x) / p[0]
        if k == "sqrt":
            return mp.sqrt(x + p[0]) - mp.sqrt(p[0])
        if k == "cubic":
            a, m = p
            return x + a * ((x - m) ** 3 + m ** 3) / 3
        if k == "sine":
            c, w = p
            return x + c * mp.sin(w * x) / w
        if k == "chuber":
            c, m = p
            return x + (c * (x - m) ** 2 / 2 if x > m else 0)
        raise ValueError(k)

    def d1(self, x):
        k, p = self.k, self.p
        one = mp.mpf(1)
        if k == "Huber":
            return one if mp.sqrt(x) < p[0] else p[0] / mp.sqrt(x)
        if k == "PseudoHuber":
            return 1 / mp.sqrt(1 + x / p[0] ** 2)
        if k == "Cauchy":
            return 1 / (1 + x / p[0] ** 2)
        if k == "SoftLOne":
            return p[0] / mp.sqrt(1 / p[0] ** 2 + x)
        if k == "Arctan":
            return 1 / (1 + (x / p[0] ** 2) ** 2)
        if k == "Tolerant":
            a, b = p
            return 1 / (1 + mp.exp(-(x - a) / b))
        if k in ("Scale", "lin"):
            return p[0]
        if k == "ident":
            return one
        if k == "quad":
            return 1 + p[0] * x
        if k == "exp":
            return p[0] * mp.exp(p[0] * x)
        if k == "xlog1p":
            return mp.log1p(x) + x / (1 + x)
        if k == "log1p":
            return 1 / (1 + p[0] * x)
        if k == "sqrt":
            return 1 / (2 * mp.sqrt(x + p[0]))
        if k == "cubic":
            return 1 + p[0] * (x - p[1]) ** 2
        if k == "sine":
            return 1 + p[0] * mp.cos(p[1] * x)
        if k == "chuber":
            return 1 + (p[0] * (x - p[1]) if x > p[1] else 0)
        raise ValueError(k)

    def d2(self, x):
        k, p = self.k, self.p
        zero = mp.mpf(0)
        if k == "Huber":
            return zero if mp.sqrt(x) < p[0] else -p[0] / (2 * x * mp.sqrt(x))
        if k == "PseudoHuber":
            return -1 / (2 * p[0] ** 2 * (1 + x / p[0] ** 2) ** mp.mpf(1.5))
        if k == "Cauchy":
            return -1 / (p[0] ** 2 * (1 + x / p[0] ** 2) ** 2)
        if k == "SoftLOne":
            return -p[0] / (2 * (1 / p[0] ** 2 + x) ** mp.mpf(1.5))
        if k == "Arctan":
            u = x / p[0] ** 2
            return -2 * u / (p[0] ** 2 * (1 + u * u) ** 2)
        if k == "Tolerant":
            s = self.d1(x)
            return s * (1 - s) / p[1]
        if k in ("Scale", "lin", "ident"):
            return zero
        if k == "quad":
            return p[0]
        if k == "exp":
            return p[0] ** 2 * mp.exp(p[0] * x)
        if k == "xlog1p":
            return 1 / (1 + x) + 1 / (1 + x) ** 2
        if k == "log1p":
            return -p[0] / (1 + p[0] * x) ** 2
        if k == "sqrt":
            return -1 / (4 * (x + p[0]) ** mp.mpf(1.5))
        if k == "cubic":
            return 2 * p[0] * (x - p[1])
        if k == "sine":
            return -p[0] * p[1] * mp.sin(p[1] * x)
        if k == "chuber":
            return p[0] if x > p[1] else zero
        raise ValueError(k)

    def psens(self, x):
        if self.k == "Tolerant":
            a, b = self.p
            return float((x + a) / abs(b) * (1 - self.d1(x))) + 2.0
        return 2.0

    def d2noise(self, x):
        """absolute size of the terms that cancel in the twice-differentiated kernel formula.
        Tolerant: d/dx of  E/(1+E)  (E = exp((x-a)/b), s = E/(1+E) = rho') is evaluated as  s/b - s^2/b : two terms of size
        s/|b|, s^2/|b| whose difference s(1-s)/b -> 0 as s -> 1 (x << a): the computed rho'' is then rounding noise of either
        sign.  xlog1p: 1/(1+x) + 1/(1+x) - x/(1+x)^2 (mild).  Every other kernel's rho'' is a single product (no
        cancellation beyond the one in x - m, which is a perturbation of x and covered by d2_range's t)."""
        if self.k == "Tolerant":
            s = self.d1(x)
            return float(s * (1 + s) / abs(self.p[1]))
        if self.k == "xlog1p":
            return float(2 / (1 + x) + x / (1 + x) ** 2)
        return 0.0

    def d2_span(self, x, t):
        """(min, max) of rho'' over x(1-t), x, x(1+t)  (mp numbers)"""
        v = [self.d2(x), self.d2(x * (1 - t)), self.d2(x * (1 + t))]
        return min(v), max(v)

    def d2_range(self, x, t, cn=0.0):
        """(lo, hi) as mp numbers: the range of rho'' over x(1-t), x, x(1+t), widened by cn*d2noise(x) on both sides"""
        lo, hi = self.d2_span(x, t)
        nz = mp.mpf(cn) * mp.mpf(self.d2noise(x)) if cn else 0
        return lo - nz, hi + nz

    def curv_class(self, x, t, cn=0.0):
        """sign class of rho'' robust to a relative perturbation t of x and to an absolute evaluation noise cn*d2noise(x):
        'pos', 'nonpos' or 'ambig'"""
        lo, hi = self.d2_range(x, t, cn)
        if lo > 0:
            return "pos"
        if hi <= 0:
            return "nonpos"
        return "ambig"


def selftest():
    """closed forms vs (i) the docstring examples, (ii) numerical differentiation of rho in mpmath"""
    doc = {"Huber": [0, 0.5, 1, 1.8284, 2.4641], "PseudoHuber": [0, 0.4495, 0.8284, 1.4641, 2.0],
           "Cauchy": [0, 0.4055, 0.6931, 1.0986, 1.3863], "SoftLOne": [0, 0.4495, 0.8284, 1.4641, 2.0],
           "Arctan": [0, 0.4636, 0.7854, 1.1071, 1.2490], "Scale": [0, 0.5, 1, 2, 3]}
    specs = [{"k": "Huber", "p": [0.7]}, {"k": "PseudoHuber", "p": [3.0]}, {"k": "Cauchy", "p": [0.2]},
             {"k": "SoftLOne", "p": [2.5]}, {"k": "Arctan", "p": [1.3]}, {"k": "Tolerant", "p": [2.0, -0.3]},
             {"k": "Scale", "p": [0.4]}, {"k": "quad", "p": [0.3]}, {"k": "exp", "p": [0.5]}, {"k": "xlog1p", "p": []},
             {"k": "ident", "p": []}, {"k": "lin", "p": [2.0]}, {"k": "log1p", "p": [0.7]}, {"k": "sqrt", "p": [0.9]},
             {"k": "cubic", "p": [0.4, 1.5]}, {"k": "sine", "p": [0.6, 2.0]}, {"k": "chuber", "p": [0.8, 1.25]}]
    with mp.workdps(DPS):
        for name, ys in doc.items():
            r = Ref({"k": name, "p": [1.0]})
            for x, y in zip([0, 0.5, 1, 2, 3], ys):
                assert abs(r.rho(mp.mpf(x)) - y) < 6e-5, (name, x, r.rho(mp.mpf(x)), y)
        for s in specs:
            r = Ref(s)
            assert r.rho(mp.mpf(0)) == 0 or abs(r.rho(mp.mpf(0))) < mp.mpf(10) ** (-35), s
            for x in (0.013, 0.31, 0.8, 1.1, 2.9, 7.3):
                x = mp.mpf(x)
                n1, n2 = mp.diff(r.rho, x), mp.diff(r.d1, x)
                assert abs(n1 - r.d1(x)) <= mp.mpf(10) ** (-20) * (1 + abs(n1)), (s, x, n1, r.d1(x))
                assert abs(n2 - r.d2(x)) <= mp.mpf(10) ** (-20) * (1 + abs(n2)), (s, x, n2, r.d2(x))
        # d2noise is the size of the cancelling terms of the twice-differentiated formula: Tolerant rho'' = s/b - s^2/b
        r = Ref({"k": "Tolerant", "p": [2.0, -0.3]})
        for x in (0.0, 0.4, 1.9, 2.6, 11.0):
            x = mp.mpf(x)
            s1, b = r.d1(x), r.p[1]
            assert abs((s1 / b - s1 ** 2 / b) - r.d2(x)) <= mp.mpf(10) ** (-30), x
            assert abs(float(abs(s1 / b) + abs(s1 ** 2 / b)) - r.d2noise(x)) <= 1e-12 * r.d2noise(x), x
            assert r.curv_class(x, 1e-15) == "nonpos" and r.curv_class(x, 1e-15, 1e-15) == "nonpos", x
        assert r.curv_class(mp.mpf(0.0001), 1e-7, 8 * 2.0 ** -23) == "nonpos"            # (a-x)/|b| = 6.7: 1-s = 1.3e-3
        r = Ref({"k": "Tolerant", "p": [1.0, -0.05]})
        assert r.curv_class(mp.mpf(0.25), 1e-7, 8 * 2.0 ** -23) == "ambig"              # (a-x)/|b| = 15: 1-s = 3e-7 < 16 eps32
        assert r.curv_class(mp.mpf(0.25), 1e-15, 8 * 2.0 ** -52) == "nonpos"            # ... but resolved in float64
