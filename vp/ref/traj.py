"""Reference pieces for trajectories / splines (numpy float64, written from the definitions).

* Hermite / straight-line and constant-twist expectations are trivial closed forms and live in the
  property module; here: exact sample counting, SE3 trajectory builders, Umeyama alignment
  (Umeyama 1991, eqs. 34-43) and the pairing rules of the RPE documentation *with margins* - the
  pairing by travelled distance is a discrete decision (>=, argmin) and an invariance can only be
  asserted when that decision is not within rounding of a tie.
"""
import math
from fractions import Fraction
import numpy as np

from . import lie as R


# ---------------------------------------------------------------------------------------------
def multiples_in_unit(h):
    """exact number of j >= 0 with j*h < 1 for the double h (rational arithmetic)"""
    f = Fraction(h)
    assert 0 < f < 1
    q = Fraction(1) / f
    k = q.numerator // q.denominator
    if Fraction(k) != q:
        k += 1
    return int(k)


def near_reciprocal(h, tol=1e-6):
    """is h within tol of 1/m for some integer m >= 1 (sample count sensitive to rounding)?"""
    m = round(1.0 / h)
    for mm in (m - 1, m, m + 1):
        if mm >= 1 and abs(h - 1.0 / mm) <= tol:
            return True
    return False


def is_dyadic(h):
    m, e = math.frexp(h)
    return m == 0.5


# ---------------------------------------------------------------------------------------------
def rand_unit_quat(rs):
    q = rs.randn(4)
    return q / np.linalg.norm(q)


def rand_pose(rs, tmag):
    return np.concatenate([rs.randn(3) * tmag, rand_unit_quat(rs)])


def rand_twist(rs, tau_mag, ang):
    """se3 element with |phi| = ang, |tau| ~ tau_mag"""
    phi = rs.randn(3)
    phi *= ang / np.linalg.norm(phi)
    return np.concatenate([rs.randn(3) * tau_mag, phi])


def mats(X):
    """(..., 7) SE3 array -> (n, 4, 4)"""
    X = np.asarray(X, dtype=np.float64).reshape(-1, 7)
    return np.stack([R.mat4("SE3", x) for x in X], 0)


def left_mul(G, X):
    """G o X_i for an (n,7) array"""
    return np.stack([R.mul("SE3", G, x) for x in np.asarray(X).reshape(-1, 7)], 0).reshape(np.shape(X))


def sim_apply(s, G, X):
    """similarity (s, G) applied to SE3 poses: t -> s R_G t + t_G, q -> q_G q"""
    X = np.asarray(X).reshape(-1, 7)
    Rg = R.qrot(G[3:7])
    out = []
    for x in X:
        out.append(np.concatenate([s * (Rg @ x[:3]) + G[:3], R.qmul(G[3:7], x[3:7])]))
    return np.stack(out, 0)


# ---------------------------------------------------------------------------------------------
def umeyama(src, dst, with_scale):
    """least-squares similarity dst ~ s R src + t  (Umeyama 1991).  Returns s, R, t and the singular
    values d of the cross-covariance together with the sign S33 (conditioning information)."""
    src, dst = np.asarray(src, float), np.asarray(dst, float)
    n = src.shape[0]
    mx, my = src.mean(0), dst.mean(0)
    X, Y = src - mx, dst - my
    H = Y.T @ X / n
    U, d, Vt = np.linalg.svd(H)
    S = np.eye(3)
    if np.linalg.det(U) * np.linalg.det(Vt) < 0:
        S[2, 2] = -1.0
    Rm = U @ S @ Vt
    s = float((d * np.diag(S)).sum() / (X ** 2).sum(1).mean()) if with_scale else 1.0
    t = my - s * Rm @ mx
    return s, Rm, t, d, S[2, 2]


def align_margin(src, dst):
    """relative gap that controls the sensitivity of the optimal rotation:
    (d2 + S33 d3)/d1 (zero = rotation not unique)"""
    _, _, _, d, s33 = umeyama(src, dst, False)
    if d[0] <= 0:
        return 0.0
    return float((d[1] + s33 * d[2]) / d[0])


# ---------------------------------------------------------------------------------------------
def pairs_frames(n, delta, all_pairs):
    delta = int(delta)
    if all_pairs:
        return [(i, i + delta) for i in range(n) if i + delta < n]
    ids = list(range(0, n, delta))
    return list(zip(ids[:-1], ids[1:]))


def pairs_distance(pos, delta, tol, all_pairs):
    """documented pairing by travelled path length.  Returns (pairs, margin): margin is the smallest
    distance of any discrete decision from its tie point (same unit as the positions)."""
    pos = np.asarray(pos, float)
    n = len(pos)
    margin = math.inf
    if all_pairs:
        acc = np.concatenate([[0.0], np.cumsum(np.linalg.norm(pos[1:] - pos[:-1], axis=1))])
        pairs = []
        for i in range(n - 1):
            dev = np.abs(acc[i + 1:] - acc[i] - delta)
            j = int(np.argmin(dev))
            if len(dev) > 1:
                srt = np.sort(dev)
                margin = min(margin, float(srt[1] - srt[0]))
            margin = min(margin, abs(float(dev[j]) - tol))
            if dev[j] > tol:
                continue
            pairs.append((i, j + i + 1))
        return pairs, margin
    idx, cur, prev = [], 0.0, pos[0]
    for i in range(n):
        cur += float(np.linalg.norm(pos[i] - prev))
        prev = pos[i]
        margin = min(margin, abs(cur - delta))
        if cur >= delta:
            idx.append(i)
            cur = 0.0
    return list(zip(idx[:-1], idx[1:])), margin


# ---------------------------------------------------------------------------------------------
# vectorised helpers (the per-sample python loops dominate the run time otherwise)
def mats_v(X):
    """(..., 7) SE3 array -> (..., 4, 4) homogeneous matrices (rotation of q/|q|), vectorised"""
    X = np.asarray(X, dtype=np.float64)
    t, q = X[..., :3], X[..., 3:7]
    q = q / np.linalg.norm(q, axis=-1, keepdims=True)
    x, y, z, w = q[..., 0], q[..., 1], q[..., 2], q[..., 3]
    M = np.zeros(X.shape[:-1] + (4, 4))
    M[..., 0, 0] = 1 - 2 * (y * y + z * z); M[..., 0, 1] = 2 * (x * y - w * z); M[..., 0, 2] = 2 * (x * z + w * y)
    M[..., 1, 0] = 2 * (x * y + w * z); M[..., 1, 1] = 1 - 2 * (x * x + z * z); M[..., 1, 2] = 2 * (y * z - w * x)
    M[..., 2, 0] = 2 * (x * z - w * y); M[..., 2, 1] = 2 * (y * z + w * x); M[..., 2, 2] = 1 - 2 * (x * x + y * y)
    M[..., :3, 3] = t
    M[..., 3, 3] = 1.0
    return M


def exp_se3_line(ts, xi):
    """matrices of Exp(t * xi) for an array of times t (one-parameter subgroup), float64 closed form:
    R = I + sin(a) K + (1-cos a) K^2,  p = (a/th) tau + (1-cos a)/th K tau + (a - sin a)/th K^2 tau,
    a = t*th, K = hat(phi/th)."""
    ts = np.asarray(ts, dtype=np.float64)
    tau, phi = np.asarray(xi[:3], float), np.asarray(xi[3:], float)
    th = float(np.linalg.norm(phi))
    M = np.zeros(ts.shape + (4, 4))
    M[..., 3, 3] = 1.0
    if th == 0.0:
        M[..., :3, :3] = np.eye(3)
        M[..., :3, 3] = ts[..., None] * tau
        return M
    K = R.skew(phi / th)
    K2 = K @ K
    a = ts * th
    omc = 2.0 * np.sin(0.5 * a) ** 2
    a2 = a * a
    ser = a * a2 * (1.0 / 6 - a2 / 120 + a2 * a2 / 5040 - a2 ** 3 / 362880 + a2 ** 4 / 39916800)
    ams = np.where(np.abs(a) < 0.5, ser, a - np.sin(a))
    M[..., :3, :3] = np.eye(3) + np.sin(a)[..., None, None] * K + omc[..., None, None] * K2
    M[..., :3, 3] = ts[..., None] * tau + (omc / th)[..., None] * (K @ tau) + (ams / th)[..., None] * (K2 @ tau)
    return M
