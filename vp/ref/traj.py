"""Reference pieces for trajectories / splines (numpy float64, written from the definitions).

* Hermite / straight-line and constant-twist expectations are trivial closed forms and live in the
  property module; here: exact sample counting, SE3 trajectory builders, Umeyama alignment
  (Umeyama 1991, eqs. 34-43) and the pairing rules of the RPE documentation *with margins* - the
  pairing by travelled distance is a discrete decision (>=, argmin) and an invariance can only be
  asserted when that decision is not within rounding of a tie.
"""
import math
from fractions import Fraction
import numpy as np

from . import lie as R


# ---------------------------------------------------------------------------------------------
def multiples_in_unit(h):
    """exact number of j >= 0 with j*h < 1 for the double h (rational arithmetic)"""
    f = Fraction(h)
    assert 0 < f < 1
    q = Fraction(1) / f
    k = q.numerator // q.denominator
    if Fraction(k) != q:
        k += 1
    return int(k)


def near_reciprocal(h, tol=1e-6):
    """is h within tol of 1/m for some integer m >= 1 (sample count sensitive to rounding)?"""
    m = round(1.0 / h)
    for mm in (m - 1, m, m + 1):
        if mm >= 1 and abs(h - 1.0 / mm) <= tol:
            return True
    return False


def is_dyadic(h):
    m, e = math.frexp(h)
    return m == 0.5


# ---------------------------------------------------------------------------------------------
def rand_unit_quat(rs):
    q = rs.randn(4)
    return q / np.linalg.norm(q)


def rand_pose(rs, tmag):
    return np.concatenate([rs.randn(3) * tmag, rand_unit_quat(rs)])


def rand_twist(rs, tau_mag, ang):
    """se3 element with |phi| = ang, |tau| ~ tau_mag"""
    phi = rs.randn(3)
    phi *= ang / np.linalg.norm(phi)
    return np.concatenate([rs.randn(3) * tau_mag, phi])


def mats(X):
    """(..., 7) SE3 array -> (n, 4, 4)"""
    X = np.asarray(X, dtype=np.float64).reshape(-1, 7)
    return np.stack([R.mat4("SE3", x) for x in X], 0)


def left_mul(G, X):
    """G o X_i for an (n,7) array"""
    return np.stack([R.mul("SE3", G, x) for x in np.asarray(X).reshape(-1, 7)], 0).reshape(np.shape(X))


def sim_apply(s, G, X):
    """similarity (s, G) applied to SE3 poses: t -> s R_G t + t_G, q -> q_G q"""
    X = np.asarray(X).reshape(-1, 7)
    Rg = R.qrot(G[3:7])
    out = []
    for x in X:
        out.append(np.concatenate([s * (Rg @ x[:3]) + G[:3], R.qmul(G[3:7], x[3:7])]))
    return np.stack(out, 0)


# ---------------------------------------------------------------------------------------------
def umeyama(src, dst, with_scale):
    """least-squares similarity dst ~ s R src + t  (Umeyama 1991).  Returns s, R, t and the singular
    values d of the cross-covariance together with the sign S33 (conditioning information)."""
    src, dst = np.asarray(src, float), np.asarray(dst, float)
    n = src.shape[0]
    mx, my = src.mean(0), dst.mean(0)
    X, Y = src - mx, dst - my
    H = Y.T @ X / n
    U, d, Vt = np.linalg.svd(H)
    S = np.eye(3)
    if np.linalg.det(U) * np.linalg.det(Vt) < 0:
        S[2, 2] = -1.0
    Rm = U @ S @ Vt
    s = float((d * np.diag(S)).sum() / (X ** 2).sum(1).mean()) if with_scale else 1.0
    t = my - s * Rm @ mx
    return s, Rm, t, d, S[2, 2]


def align_margin(src, dst):
    """relative gap that controls the sensitivity of the optimal rotation:
    (d2 + S33 d3)/d1 (zero = rotation not unique)"""
    _, _, _, d, s33 = umeyama(src, dst, False)
    if d[0] <= 0:
        return 0.0
    return float((d[1] + s33 * d[2]) / d[0])


# ---------------------------------------------------------------------------------------------
def pairs_frames(n, delta, all_pairs):
    delta = int(delta)
    if all_pairs:
        return [(i, i + delta) for i in range(n) if i + delta < n]
    ids = list(range(0, n, delta))
    return list(zip(ids[:-1], ids[1:]))


def pairs_distance(pos, delta, tol, all_pairs):
    """documented pairing by travelled path length.  Returns (pairs, margin): margin is the smallest
    distance of any discrete decision from its tie point (same unit as the positions)."""
    pos = np.asarray(pos, float)
    n = len(pos)
    margin = math.inf
    if all_pairs:
        acc = np.concatenate([[0.0], np.cumsum(np.linalg.norm(pos[1:] - pos[:-1], axis=1))])
        pairs = []
        for i in range(n - 1):
            dev = np.abs(acc[i + 1:] - acc[i] - delta)
            j = int(np.argmin(dev))
            if len(dev) > 1:
                srt = np.sort(dev)
                margin = min(margin, float(srt[1] - srt[0]))
            margin = min(margin, abs(float(dev[j]) - tol))
            if dev[j] > tol:
                continue
            pairs.append((i, j + i + 1))
        return pairs, margin
    idx, cur, prev = [], 0.0, pos[0]
    for i in range(n):
        cur += float(np.linalg.norm(pos[i] - prev))
        prev = pos[i]
        margin = min(margin, abs(cur - delta))
        if cur >= delta:
            idx.append(i)
            cur = 0.0
    return list(zip(idx[:-1], idx[1:])), margin


# ---------------------------------------------------------------------------------------------
# vectorised helpers (the per-sample python loops dominate the run time otherwise)
def mats_v(X):
    """(..., 7) SE3 array -> (..., 4, 4) homogeneous matrices (rotation of q/|q|), vectorised"""
    X = np.asarray(X, dtype=np.float64)
    t, q = X[..., :3], X[..., 3:7]
    q = q / np.linalg.norm(q, axis=-1, keepdims=True)
    x, y, z, w = q[..., 0], q[..., 1], q[..., 2], q[..., 3]
    M = np.zeros(X.shape[:-1] + (4, 4))
    M[..., 0, 0] = 1 - 2 * (y * y + z * z); M[..., 0, 1] = 2 * (x * y - w * z); M[..., 0, 2] = 2 * (x * z + w * y)
    M[..., 1, 0] = 2 * (x * y + w * z); M[..., 1, 1] = 1 - 2 * (x * x + z * z); M[..., 1, 2] = 2 * (y * z - w * x)
    M[..., 2, 0] = 2 * (x * z - w * y); M[..., 2, 1] = 2 * (y * z + w * x); M[..., 2, 2] = 1 - 2 * (x * x + y * y)
    M[..., :3, 3] = t
    M[..., 3, 3] = 1.0
    return M


def exp_se3_line(ts, xi):
    """matrices of Exp(t * xi) for an array of times t (one-parameter subgroup), float64 closed form:
    R = I + sin(a) K + (1-cos a) K^2,  p = (a/th) tau + (1-cos a)/th K tau + (a - sin a)/th K^2 tau,
    a = t*th, K = hat(phi/th)."""
    ts = np.asarray(ts, dtype=np.float64)
    tau, phi = np.asarray(xi[:3], float), np.asarray(xi[3:], float)
    th = float(np.linalg.norm(phi))
    M = np.zeros(ts.shape + (4, 4))
    M[..., 3, 3] = 1.0
    if th == 0.0:
        M[..., :3, :3] = np.eye(3)
        M[..., :3, 3] = ts[..., None] * tau
        return M
    K = R.skew(phi / th)
    K2 = K @ K
    a = ts * th
    omc = 2.0 * np.sin(0.5 * a) ** 2
    a2 = a * a
    # a - sin a = a^3/6 (1 - a^2/20 (1 - a^2/42 (1 - a^2/72 (...)))): nine terms, truncation < 1e-19 relative for
    # |a| < 0.5 (the five-term version was 1e-12 off at a = 0.5, visible once the translation tolerance is eps-sized)
    ser = np.ones_like(a)
    for den in (342.0, 272.0, 210.0, 156.0, 110.0, 72.0, 42.0, 20.0):
        ser = 1.0 - a2 / den * ser
    ser = a * a2 / 6.0 * ser
    ams = np.where(np.abs(a) < 0.5, ser, a - np.sin(a))
    M[..., :3, :3] = np.eye(3) + np.sin(a)[..., None, None] * K + omc[..., None, None] * K2
    M[..., :3, 3] = ts[..., None] * tau + (omc / th)[..., None] * (K @ tau) + (ams / th)[..., None] * (K2 @ tau)
    return M


# ---------------------------------------------------------------------------------------------
# bspline: geometry of the control poses and a-priori bounds used by the continuity / accuracy tolerances
def rel_geometry(M):
    """M: (nb, N, 4, 4) poses -> (theta, dist), each (nb, N-1): rotation angle in [0, pi] of the relative rotation
    and distance between the positions of consecutive poses"""
    Rr = np.einsum("bnji,bnjk->bnik", M[:, :-1, :3, :3], M[:, 1:, :3, :3])
    v = np.stack([Rr[..., 2, 1] - Rr[..., 1, 2], Rr[..., 0, 2] - Rr[..., 2, 0], Rr[..., 1, 0] - Rr[..., 0, 1]], -1)
    th = np.arctan2(0.5 * np.linalg.norm(v, axis=-1), 0.5 * (np.trace(Rr, axis1=-2, axis2=-1) - 1.0))
    d = np.linalg.norm(M[:, 1:, :3, 3] - M[:, :-1, :3, 3], axis=-1)
    return th, d


def twist_norm_bound(th, d):
    """|tau| of Log of a relative pose with rotation angle th and translation length d:
    tau = V(phi)^-1 t and the eigenvalues of V^-1 have modulus 1 or (th/2)/sin(th/2) <= pi/2"""
    th = np.asarray(th, float)
    half = 0.5 * th
    kap = np.where(half > 1e-8, half / np.sin(np.maximum(half, 1e-8)), 1.0)
    return kap * d


def exp_translation_noise(th, eps, window=32.0):
    """Relative (to |tau|) bound on the translation error of a closed-form se3 Exp in a dtype with machine epsilon eps,
    as granted by property C01 (sqrt(eps)) but resolved in the angle:  t = tau + c1 phi x tau + c2 phi x (phi x tau) with
    c1 = (1-cos th)/th^2.  cos th carries an absolute error <= eps/2, so c1 is off by <= eps/(2 th^2) (taken 4x: 2 eps/th^2)
    and the term c1 phi x tau by <= 2 eps/th |tau|; whatever c1 comes out when th^2 <~ eps (cos th rounds to 1, c1 = 0
    instead of 1/2) the term is off by at most th |tau|.  Hence N(th) = min(th, 2 eps/th) <= sqrt(2 eps).  For a scaled
    twist lambda*xi, 0<=lambda<=1, sup_lambda N(lambda th) lambda = N(th) (for lambda th below the cross-over the product is
    lambda^2 th <= 2 eps/th).  The angle the library sees is only known to a few eps (rounded quaternions), so the
    supremum over [th - window*eps, th + window*eps] is returned."""
    th = np.asarray(th, float)
    thc = math.sqrt(2.0 * eps)
    x = np.clip(thc, np.maximum(th - window * eps, 0.0), th + window * eps)
    return np.minimum(x, 2.0 * eps / np.maximum(x, 1e-300))


def _leibniz(*fs):
    """fs: tuples (f0, f1, f2, f3) bounding the norms of a factor and its first three derivatives; returns the same
    bounds for the product (Leibniz rule, sub-multiplicative norms)"""
    out = fs[0]
    for g in fs[1:]:
        out = tuple(sum(math.comb(k, i) * out[i] * g[k - i] for i in range(k + 1)) for k in range(4))
    return out


def bspline_third_derivative_bounds(th, tau):
    """Bounds (K_rot, K_tr) on |d^3 R/du^3|_2 and |d^3 p/du^3|_2 over u in [0, 1] of one segment
    T(u) = P Exp(l0(u) xi0) Exp(l1(u) xi1) Exp(l2(u) xi2) of the cumulative cubic B-spline, where th >= |phi_j| and
    tau >= |tau_j| for the three twists (arrays broadcast).  The cumulative basis l = M U(u) of the docstring has
    |l'| <= 3/4, |l''| <= 1, |l'''| <= 2 on [0, 1].  With E = exp(l(u) hat(phi)) and g = int_0^l(u) exp(r hat(phi)) tau dr
    (rotation and translation of one factor):  |E'| <= c1 th, |E''| <= c1^2 th^2 + c2 th, |E'''| <= c1^3 th^3 + 3 c1 c2 th^2
    + c3 th and |g^(k)| = tau/th times the same expression (|g| <= tau); R = R_P E0 E1 E2, p = p_P + R_P (g0 + E0 g1 + E0 E1 g2)."""
    c1, c2, c3 = 0.75, 1.0, 2.0
    th, tau = np.asarray(th, float), np.asarray(tau, float)
    one = np.ones_like(th)
    e = (one, c1 * th, c1 * c1 * th * th + c2 * th, c1 ** 3 * th ** 3 + 3 * c1 * c2 * th * th + c3 * th)
    g = (tau, c1 * tau, tau * (c1 * c1 * th + c2), tau * (c1 ** 3 * th * th + 3 * c1 * c2 * th + c3))
    k_rot = _leibniz(e, e, e)[3]
    k_tr = g[3] + _leibniz(e, g)[3] + _leibniz(e, e, g)[3]
    return k_rot, k_tr


# ---------------------------------------------------------------------------------------------
# APE / RPE reference (documented definitions; numpy float64)
def associate(rstamp, estamp, diff, offset):
    """Pairs (i, j) with |rstamp[i] - (estamp[j] + offset)| < diff (documented: 'maximum allowed absolute time difference
    for associating poses', 'offset for the second timestamps').  Returns (pairs sorted by i, margin, unique): margin =
    distance of the closest decision from the threshold, unique = no stamp occurs in two pairs (then 'nearest stamp'
    and 'any stamp within diff' are the same rule)."""
    rstamp, estamp = np.asarray(rstamp, float), np.asarray(estamp, float)
    D = np.abs(rstamp[:, None] - (estamp[None, :] + offset))
    hit = D < diff
    ii, jj = np.nonzero(hit)
    unique = bool(hit.sum(0).max(initial=0) <= 1 and hit.sum(1).max(initial=0) <= 1)
    return list(zip(ii.tolist(), jj.tolist())), float(np.abs(D - diff).min()), unique


def inv_mats(M):
    """inverse of (..., 4, 4) rigid matrices"""
    out = np.zeros_like(M)
    Rt = np.swapaxes(M[..., :3, :3], -1, -2)
    out[..., :3, :3] = Rt
    out[..., :3, 3] = -np.einsum("...ij,...j->...i", Rt, M[..., :3, 3])
    out[..., 3, 3] = 1.0
    return out


def rot_angles(Rm):
    """angles in [0, pi] of (..., 3, 3) rotation matrices (atan2 form, accurate near 0 and pi)"""
    v = np.stack([Rm[..., 2, 1] - Rm[..., 1, 2], Rm[..., 0, 2] - Rm[..., 2, 0], Rm[..., 1, 0] - Rm[..., 0, 1]], -1)
    return np.arctan2(0.5 * np.linalg.norm(v, axis=-1), 0.5 * (np.trace(Rm, axis1=-2, axis2=-1) - 1.0))


def metric_errors(Mr, Me, metric, etype, pairs=None):
    """Per-sample errors of the documented APE / RPE definitions for associated (and already aligned) poses
    Mr, Me: (M, 4, 4).  Returns a list of (reading name, error array): where the documentation leaves the norm open
    (||.||_2 of a matrix: spectral or Frobenius) or states a formula that differs from the usual definition (rpe
    translation) every reading is returned and the caller accepts any of them."""
    if metric == "ape":
        E = inv_mats(Me) @ Mr
        dt = [("", np.linalg.norm(Me[:, :3, 3] - Mr[:, :3, 3], axis=-1))]
    else:
        a, b = [p[0] for p in pairs], [p[1] for p in pairs]
        relr, rele = inv_mats(Mr[a]) @ Mr[b], inv_mats(Me[a]) @ Me[b]
        E = inv_mats(relr) @ rele
        ir, ie = inv_mats(relr), inv_mats(rele)
        dt = [("translation of Tr^-1 Te", np.linalg.norm(E[:, :3, 3], axis=-1)),
              ("|Rr^T tr - Re^T te|", np.linalg.norm(ir[:, :3, 3] - ie[:, :3, 3], axis=-1))]
    I4 = np.eye(4)
    if etype == "translation":
        return dt
    if etype == "rotation":
        A = E[:, :3, :3] - I4[:3, :3]
        return [("frobenius", np.linalg.norm(A, axis=(-2, -1))), ("spectral", np.linalg.norm(A, ord=2, axis=(-2, -1)))]
    if etype == "pose":
        A = E - I4
        return [("frobenius", np.linalg.norm(A, axis=(-2, -1))), ("spectral", np.linalg.norm(A, ord=2, axis=(-2, -1)))]
    ang = rot_angles(E[:, :3, :3])
    if etype == "radian":
        return [("", ang)]
    if etype == "degree":
        return [("", np.degrees(ang))]
    raise ValueError(etype)


def statistics(err):
    """{name: (lo, hi)} interval of admissible values of each documented statistic of the error samples: Median may be
    any value between the two middle samples, STD the population or the sample standard deviation."""
    e = np.abs(np.asarray(err, float))
    n = len(e)
    s = np.sort(e)
    mean = float(e.mean())
    ss = float(((e - mean) ** 2).sum())
    sds = [math.sqrt(ss / n)] + ([math.sqrt(ss / (n - 1))] if n > 1 else [])
    one = lambda v: (float(v), float(v))
    return {"Max": one(s[-1]), "Min": one(s[0]), "Mean": one(mean), "Median": (float(s[(n - 1) // 2]), float(s[n // 2])),
            "RMSE": one(math.sqrt(float((e ** 2).mean()))), "SSE": one(float((e ** 2).sum())),
            "STD": (min(sds), max(sds))}
