"""Brute-force numpy reference for point-cloud neighbour queries / filters and the pinhole camera.

Everything is written from the definitions in property C18 (never by calling pypose or torch):
distances in the 1 / 2 / inf norm, k smallest by a stable sort, neighbour counts, voxel cells by
floor((p - min) / size), centroids, and u = fx X/Z + cx, v = fy Y/Z + cy.
All functions take / return float64 numpy arrays.
"""
import math
import itertools
import numpy as np

INF = float("inf")


def ord_of(name):
    """'1' | '2' | 'inf' -> the value pypose / torch expects"""
    return {"1": 1, "2": 2, "inf": INF}[str(name)]


def pdist(A, B, ord=2):
    """(N1, N2) matrix of ord-norm distances between the rows of A (N1, D) and B (N2, D)"""
    A = np.asarray(A, dtype=np.float64)
    B = np.asarray(B, dtype=np.float64)
    d = np.abs(A[:, None, :] - B[None, :, :])
    if ord == 1:
        return d.sum(-1)
    if ord == 2:
        return np.sqrt((d * d).sum(-1))
    if ord == INF:
        return d.max(-1) if d.shape[-1] else np.zeros(d.shape[:2])
    raise ValueError(ord)


def knn(dist, k, largest=False):
    """k smallest (largest) entries of every row of a distance matrix, sorted; (values, indices).
    Stable sort: among exactly equal distances the lower index comes first (only used for value claims)."""
    key = -dist if largest else dist
    idx = np.argsort(key, axis=-1, kind="stable")[:, :k]
    return np.take_along_axis(dist, idx, -1), idx


def row_gap_ok(dist_sorted_row, k, rel):
    """True iff the first k entries of an ascending row are separated from each other and from entry k
    by more than rel * magnitude (so that indices are determined despite rounding)."""
    m = min(k + 1, len(dist_sorted_row))
    r = dist_sorted_row[:m]
    if m < 2:
        return True
    gaps = np.diff(r)
    return bool(np.all(gaps > rel * np.abs(r[1:])))


def neighbour_count(dist_self, radius):
    """#{j != i : d_ij <= radius} for a square self-distance matrix"""
    n = dist_self.shape[0]
    within = dist_self <= radius
    within[np.arange(n), np.arange(n)] = False
    return within.sum(-1)


def nbr_mask(points, n, radius, ord=2):
    return neighbour_count(pdist(points, points, ord), radius) >= n


def pair_distances(dist_self):
    """sorted distinct positive pairwise distances of a cloud (upper triangle)"""
    n = dist_self.shape[0]
    iu = np.triu_indices(n, 1)
    d = np.unique(dist_self[iu])
    return d[d > 0]


def safe_radius(all_d, target, rel, fallback=1.0):
    """A radius close to `target` that is NOT within `rel` (relative) of any pairwise distance:
    `all_d` = ascending distinct positive pairwise distances; the result is the midpoint of the first gap
    between consecutive distances above `target` whose relative width exceeds 4*rel (half the
    smallest / 1.5 times the largest distance at the two ends)."""
    d = np.asarray(all_d, dtype=np.float64)
    if d.size == 0:
        return float(fallback)
    lo = np.concatenate([[d[0] * 0.5], d])            # gap m lies between lo[m] and hi[m]
    hi = np.concatenate([d, [d[-1] * 1.5]])
    ok = (hi - lo) > 4 * rel * hi
    ok[-1] = True
    m = int(np.searchsorted(d, target, side="right"))  # d[m-1] <= target < d[m]
    m = m + int(np.nonzero(ok[m:])[0][0])
    if m == 0:
        return float(lo[0])
    if m == len(d):
        return float(hi[-1])
    return float(0.5 * (lo[m] + hi[m]))


def radius_is_safe(dist_self, radius, rel):
    n = dist_self.shape[0]
    off = dist_self[~np.eye(n, dtype=bool)]
    if off.size == 0:
        return True
    return bool(np.all(np.abs(off - radius) > rel * np.maximum(off, radius)))


def voxel_cells(coords, voxel):
    """integer cell index of every point: floor((p - min over the cloud) / size) per axis"""
    coords = np.asarray(coords, dtype=np.float64)
    v = np.asarray(voxel, dtype=np.float64)
    return np.floor((coords - coords.min(0)) / v).astype(np.int64)


def voxel_groups(coords, voxel):
    """dict cell tuple -> list of point indices"""
    out = {}
    for i, c in enumerate(voxel_cells(coords, voxel)):
        out.setdefault(tuple(int(x) for x in c), []).append(i)
    return out


def tie_options(P, cols, order, s, k, rel, max_options=64):
    """All admissible means for a row whose k-th / (k+1)-th neighbour distances (nearly) tie.

    `s` = ascending distances of the candidate points `cols[order]` (the point itself included, distance 0).
    The near-tie cluster is the maximal run of consecutive entries around positions k | k+1 whose successive
    gaps are <= rel * magnitude; everything below the cluster must be selected, the remaining
    k+1-(#below) points may be ANY subset of the cluster (the point itself is not forced: it is one of
    the exactly coinciding points then).  Returns an (m, D) array of candidate means, or None when
    there are more than max_options subsets (row left unasserted)."""
    m = len(s)
    lo = k
    while lo > 0 and s[lo] - s[lo - 1] <= rel * s[lo]:
        lo -= 1
    hi = k + 1
    while hi + 1 < m and s[hi + 1] - s[hi] <= rel * s[hi + 1]:
        hi += 1
    need = k + 1 - lo
    T = order[lo:hi + 1]
    if math.comb(len(T), need) > max_options:
        return None
    base = P[cols[order[:lo]]].sum(0)
    return np.array([(base + P[cols[list(c)]].sum(0)) / (k + 1) for c in itertools.combinations(T, need)])


def knn_filter(points, k, pdim, radius=None, ord=2, rel=1e-9, max_options=64):
    """Reference of knn_filter on one (N, D) cloud.

    returns dict(mask, A, B, okA, okB, optA, optB):
      mask  retained points (all, or #{j != i, d_ij <= radius} >= k)
      A     rows = mean over the k+1 nearest points (the point itself, distance 0, and its k nearest
            neighbours) among ALL points (for retained i, input order)
      B     same with neighbours among RETAINED points only, or None if fewer than k+1 are retained
      okA / okB  per-row flags: the set of the k+1 nearest is determined (no near tie between the
            k-th and the (k+1)-th neighbour).  Exactly coinciding points are fine as long as that
            boundary is clear: all zero-distance points are selected then, in whatever order.
      optA / optB  per row: None (determined, or too many alternatives) or the array of the means
            of every admissible resolution of the tie (see tie_options)."""
    P = np.asarray(points, dtype=np.float64)
    n = P.shape[0]
    d = pdist(P[:, :pdim], P[:, :pdim], ord)
    mask = np.ones(n, dtype=bool) if radius is None else (neighbour_count(d, radius) >= k)
    ret = np.nonzero(mask)[0]

    def rows(cols):
        out, ok, opts = [], [], []
        for i in ret:
            dd = d[i, cols]
            o = np.argsort(dd, kind="stable")
            s = dd[o]
            good = k + 1 >= len(s) or s[k + 1] - s[k] > rel * s[k + 1]
            out.append(P[cols[o[:k + 1]]].mean(0))
            ok.append(bool(good))
            opts.append(None if good else tie_options(P, cols, o, s, k, rel, max_options))
            if good and i not in cols[o[:k + 1]]:
                raise AssertionError("reference: the point itself is not among its k+1 nearest")
        return (np.array(out).reshape(len(ret), P.shape[1]), np.array(ok, dtype=bool), opts)

    A, okA, optA = rows(np.arange(n))
    if len(ret) >= k + 1:
        B, okB, optB = rows(ret)
    else:
        B, okB, optB = None, None, None
    return {"mask": mask, "A": A, "B": B, "okA": okA, "okB": okB, "optA": optA, "optB": optB}


def project(Pc, fx, fy, cx, cy):
    """pinhole projection of camera-frame points (N,3): u = fx X/Z + cx, v = fy Y/Z + cy"""
    Pc = np.asarray(Pc, dtype=np.float64)
    return np.stack([fx * Pc[..., 0] / Pc[..., 2] + cx, fy * Pc[..., 1] / Pc[..., 2] + cy], -1)


def backproject(px, z, fx, fy, cx, cy):
    px = np.asarray(px, dtype=np.float64)
    z = np.asarray(z, dtype=np.float64)
    return np.stack([(px[..., 0] - cx) * z / fx, (px[..., 1] - cy) * z / fy, z], -1)


# ---- second, loop-based formulation used by the self-test ---------------------------------------
def knn_loops(A, B, k, ord=2):
    vals, idxs = [], []
    for a in A:
        ds = []
        for j, b in enumerate(B):
            c = [abs(float(x) - float(y)) for x, y in zip(a, b)]
            if ord == 1:
                ds.append((sum(c), j))
            elif ord == 2:
                ds.append((math.sqrt(sum(x * x for x in c)), j))
            else:
                ds.append((max(c) if c else 0.0, j))
        ds.sort()
        vals.append([v for v, _ in ds[:k]])
        idxs.append([j for _, j in ds[:k]])
    return np.array(vals), np.array(idxs)
