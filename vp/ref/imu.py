"""Reference model of IMU preintegration (float64 numpy, sequential in time, own quaternion algebra).

Written from the docstring of pypose.module.IMUPreintegrator.forward / predict:

    dR_{k+1} = dR_k Exp(w_k dt_k)
    dv_{k+1} = dv_k + dR_k a_k dt_k
    dp_{k+1} = dp_k + dv_k dt_k + 1/2 dR_k a_k dt_k^2           (pre-update dR_k, dv_k)

    rot_k = R0 dR_k,   vel_k = v0 + R0 dv_k,   pos_k = p0 + R0 dp_k + v0 Dt_k

where a_k = acc_k - Rg_k^-1 g is the raw measurement with gravity removed using the rotation Rg_k:
the SUPPLIED rotation of frame k, or (none supplied) the INTEGRATED rotation, for which the statement
leaves two readings open: "pre" Rg_k = R0 dR_k (rotation at the start of frame k) and "post"
Rg_k = R0 dR_{k+1}.  With the "pre" reading R0 dR_k a_k = R0 dR_k acc_k - g, so the result is exactly the
other documented form  v = v0 + R0 dv(acc) - g Dt,  p = p0 + R0 dp(acc) + v0 Dt - 1/2 g Dt^2 (checked in the
self-test of the property module).

The time loop is sequential; independent streams (batch rows) are carried side by side as arrays.
Nothing here calls pypose or torch.
"""
import numpy as np


def qmul_n(a, b):
    """Hamilton product of quaternion arrays (...,4) in xyzw order"""
    ax, ay, az, aw = a[..., 0], a[..., 1], a[..., 2], a[..., 3]
    bx, by, bz, bw = b[..., 0], b[..., 1], b[..., 2], b[..., 3]
    return np.stack([aw * bx + ax * bw + ay * bz - az * by,
                     aw * by - ax * bz + ay * bw + az * bx,
                     aw * bz + ax * by - ay * bx + az * bw,
                     aw * bw - ax * bx - ay * by - az * bz], axis=-1)


def qrot_n(q):
    """(...,4) xyzw -> (...,3,3) rotation matrices of q/|q|"""
    q = np.asarray(q, dtype=np.float64)
    q = q / np.linalg.norm(q, axis=-1, keepdims=True)
    x, y, z, w = q[..., 0], q[..., 1], q[..., 2], q[..., 3]
    M = np.empty(q.shape[:-1] + (3, 3))
    M[..., 0, 0] = 1 - 2 * (y * y + z * z); M[..., 0, 1] = 2 * (x * y - w * z); M[..., 0, 2] = 2 * (x * z + w * y)
    M[..., 1, 0] = 2 * (x * y + w * z); M[..., 1, 1] = 1 - 2 * (x * x + z * z); M[..., 1, 2] = 2 * (y * z - w * x)
    M[..., 2, 0] = 2 * (x * z - w * y); M[..., 2, 1] = 2 * (y * z + w * x); M[..., 2, 2] = 1 - 2 * (x * x + y * y)
    return M


def so3_exp_n(phi):
    """quaternion of Exp(phi), phi (...,3): [sin(th/2)/th * phi, cos(th/2)], Taylor series of sin(th/2)/th below 1e-4.
    Valid for every angle th (also beyond pi and 2 pi: only Log would have to wrap); callers compare rotations as
    matrices (qrot_n), so the sign of the quaternion does not matter."""
    phi = np.asarray(phi, dtype=np.float64)
    th = np.linalg.norm(phi, axis=-1, keepdims=True)
    t2 = th * th
    small = th < 1e-4
    f = np.where(small, 0.5 - t2 / 48.0 + t2 * t2 / 3840.0, np.sin(0.5 * th) / np.where(small, 1.0, th))
    return np.concatenate([f * phi, np.cos(0.5 * th)], axis=-1)


def _mv(M, v):
    return np.einsum("...ij,...j->...i", M, v)


def _mtv(M, v):
    return np.einsum("...ji,...j->...i", M, v)


def preintegrate(dt, gyro, acc, g, q0, p0, v0, rot=None, mode="post"):
    """dt (B,F) or (F,), gyro/acc (B,F,3) or (F,3), g (3,), q0 (B,4)|(4,) xyzw, p0, v0 (B,3)|(3,), rot None or (B,F,4).
    Returns dict with rot (B,F,4), vel (B,F,3), pos (B,F,3) and the cumulative magnitude bounds sv, sp (B,F)
    (sum of the absolute values of all terms entering vel / pos) used for tolerances.  A single stream (no B
    axis) returns arrays without the B axis."""
    dt = np.asarray(dt, dtype=np.float64)
    single = dt.ndim == 1
    dt = dt.reshape((1, -1)) if single else dt.reshape(dt.shape[0], -1)
    B, F = dt.shape
    gyro = np.asarray(gyro, dtype=np.float64).reshape(B, F, 3)
    acc = np.asarray(acc, dtype=np.float64).reshape(B, F, 3)
    g = np.asarray(g, dtype=np.float64).reshape(3)
    q0 = np.broadcast_to(np.asarray(q0, dtype=np.float64).reshape(-1, 4), (B, 4))
    p0 = np.broadcast_to(np.asarray(p0, dtype=np.float64).reshape(-1, 3), (B, 3))
    v0 = np.broadcast_to(np.asarray(v0, dtype=np.float64).reshape(-1, 3), (B, 3))
    if rot is not None:
        rot = np.asarray(rot, dtype=np.float64).reshape(B, F, 4)
    if mode not in ("pre", "post"):
        raise ValueError(mode)
    R0 = qrot_n(q0)
    dq = np.tile([0.0, 0.0, 0.0, 1.0], (B, 1))
    dv, dp, Dt = np.zeros((B, 3)), np.zeros((B, 3)), np.zeros((B, 1))
    sdv, sdp = np.zeros((B, 1)), np.zeros((B, 1))       # magnitude bounds of dv, dp
    nv0 = np.linalg.norm(v0, axis=-1, keepdims=True)
    np0 = np.linalg.norm(p0, axis=-1, keepdims=True)
    ng = np.linalg.norm(g)
    out = {"rot": np.zeros((B, F, 4)), "vel": np.zeros((B, F, 3)), "pos": np.zeros((B, F, 3)),
           "sv": np.zeros((B, F)), "sp": np.zeros((B, F))}
    for k in range(F):
        h = dt[:, k:k + 1]
        dq_next = qmul_n(dq, so3_exp_n(gyro[:, k] * h))
        dq_next = dq_next / np.linalg.norm(dq_next, axis=-1, keepdims=True)
        dRk = qrot_n(dq)
        if rot is not None:
            Rg = qrot_n(rot[:, k])
        elif mode == "pre":
            Rg = R0 @ dRk
        else:
            Rg = R0 @ qrot_n(dq_next)
        a = acc[:, k] - _mtv(Rg, g)
        Ra = _mv(dRk, a)
        na = np.linalg.norm(acc[:, k], axis=-1, keepdims=True) + ng
        dp = dp + dv * h + 0.5 * Ra * h * h          # uses the pre-update dv, dR
        sdp = sdp + sdv * h + 0.5 * na * h * h
        dv = dv + Ra * h
        sdv = sdv + na * h
        dq = dq_next
        Dt = Dt + h
        out["rot"][:, k] = qmul_n(q0, dq)
        out["vel"][:, k] = v0 + _mv(R0, dv)
        out["pos"][:, k] = p0 + _mv(R0, dp) + v0 * Dt
        out["sv"][:, k] = (nv0 + sdv)[:, 0]
        out["sp"][:, k] = (np0 + nv0 * Dt + sdp)[:, 0]
    if single:
        out = {k: v[0] for k, v in out.items()}
    return out


def preintegrate_raw_plus_gravity(dt, gyro, acc, g, q0, p0, v0):
    """Second formulation (docstring of predict with g_world = -g): integrate the RAW acceleration and add
    the gravity terms when composing with the initial state.  Equals preintegrate(mode="pre").  Single stream."""
    z = preintegrate(dt, gyro, acc, np.zeros(3), q0, p0, v0)
    Dt = np.cumsum(np.asarray(dt, dtype=np.float64).reshape(-1))
    g = np.asarray(g, dtype=np.float64).reshape(3)
    z["vel"] = z["vel"] - g[None, :] * Dt[:, None]
    z["pos"] = z["pos"] - 0.5 * g[None, :] * (Dt ** 2)[:, None]
    return z
