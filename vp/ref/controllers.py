"""Reference model of the stopping controllers (property C20).

Written from the property statement and the class docstrings of
``pypose.optim.scheduler.StopOnPlateau`` and ``pypose.utils.ReduceToBason`` -- pure Python, no torch,
never calls the code under test.

Documented stopping conditions (a controller reports ``continual()`` true until, and false from, the
first step at which one of them holds; it stays false until ``reset()``):

  budget    the number of steps taken since construction / reset reached ``steps``
  patience  the last ``patience`` consecutive steps each failed to decrease the loss by the configured
            amount ``decreasing``
  reject    (StopOnPlateau) the optimizer's last step involved a rejection
  tol       (ReduceToBason) all losses of the batch are below ``tol``

What "decrease by the configured amount" means is NOT fixed by the statement: the docstrings say
"relative loss decreasing", the StopOnPlateau docstring example only works with the absolute reading
(last - loss), ReduceToBason divides by the new loss.  ``relation`` therefore classifies a step only
when the three readings agree (with a safety factor); callers generate histories on which they do.
"""
import math

INF = float("inf")
READINGS = ("abs", "rel_last", "rel_new")
CAUSES = ("budget", "patience", "reject", "tol")


def amounts(last, loss):
    """the decrease of one step under the three readings (positive finite losses)"""
    d = last - loss
    return (d, d / last, d / loss)


def relation(last, loss, thr, margin=2.0):
    """'dec'  : decreased by at least `thr` under every reading, with a factor `margin` to spare
       'fail' : failed to decrease by `thr` under every reading, with a factor `margin` to spare
       None   : the readings disagree or the step is too close to the threshold to call.
    The first step after construction / reset has no previous loss (last = inf): nothing can have
    failed to decrease, 'dec'."""
    if last == INF:
        return "dec"
    if not (0.0 < last < INF and 0.0 < loss < INF and thr > 0.0):
        return None
    a = amounts(last, loss)
    if min(a) >= margin * thr:
        return "dec"
    if max(a) <= thr / margin:
        return "fail"
    return None


def step_failed(lasts, losses, thr, margin=2.0):
    """Did this step fail to decrease the (batched) loss?  Docstring of ReduceToBason.step: "all losses
    in the batch has to satisfy the condition to stop a loop" -- the step counts as failed when every
    element failed (equivalently: per-element counters, stop when all reached `patience`, since the run
    of all-failed steps ending now is the minimum of the per-element runs).  True / False / None."""
    rel = [relation(a, b, thr, margin) for a, b in zip(lasts, losses)]
    if any(r == "dec" for r in rel):
        return False
    if all(r == "fail" for r in rel):
        return True
    return None


def all_below(losses, tol, margin=1e-4):
    """all losses below tol?  True / False / None (an element within `margin` of tol is not called)"""
    if any(x >= tol * (1 + margin) for x in losses):
        return False
    if all(x <= tol * (1 - margin) for x in losses):
        return True
    return None


def failed_under(last, loss, thr, reading, rtol=1e-5):
    """exact single-reading verdict for ONE element, used by the driver checks which accept every
    reading: True (failed) / False / None (ill-defined, or within rtol of the threshold)."""
    if last == INF:
        return False
    if not (0.0 < last < INF and 0.0 < loss < INF):
        return None
    a = amounts(last, loss)[READINGS.index(reading)]
    if thr != 0.0 and abs(a - thr) <= rtol * abs(thr):
        return None
    return a < thr        # thr == 0: the sign of a float32 difference is exact


class Automaton(object):
    """state: steps, patience_count, continual (+ bookkeeping: when and why it stopped)"""
    __slots__ = ("max_steps", "patience", "steps", "patience_count", "continual", "stop_step", "stop_causes",
                 "first_true")

    def __init__(self, steps, patience):
        self.max_steps, self.patience = int(steps), int(patience)
        self.reset()

    def reset(self):
        self.steps, self.patience_count, self.continual = 0, 0, True
        self.stop_step, self.stop_causes = 0, ()
        self.first_true = (0, 0, 0, 0)          # per cause: first step at which its condition held (0 = never)

    def step(self, failed, rejected=False, below=False):
        self.steps += 1
        self.patience_count = self.patience_count + 1 if failed else 0
        now = (self.steps >= self.max_steps, self.patience_count >= self.patience, bool(rejected), bool(below))
        if True in now:
            ft = self.first_true
            self.first_true = tuple(f if (f or not n) else self.steps for f, n in zip(ft, now))
            if self.continual:
                self.continual = False
                self.stop_step = self.steps
                self.stop_causes = tuple(c for c, n in zip(CAUSES, now) if n)
        return self.continual

    # cheap snapshots for the prefix-sharing enumeration
    def get(self):
        return (self.steps, self.patience_count, self.continual, self.stop_step, self.stop_causes, self.first_true)

    def set(self, s):
        self.steps, self.patience_count, self.continual, self.stop_step, self.stop_causes, self.first_true = s

    def causes_at_different_steps(self):
        return len({f for f in self.first_true if f}) >= 2


def stop_step_by_definition(history, steps, patience):
    """Second, non-incremental formulation used by the self-test: history = [(failed, rejected, below)];
    returns the first 1-based step t at which a documented condition holds (0 if none)."""
    for t in range(1, len(history) + 1):
        if t >= steps:
            return t
        if t >= patience and all(h[0] for h in history[t - patience:t]):
            return t
        if history[t - 1][1] or history[t - 1][2]:
            return t
    return 0
