"""Reference model of the stopping controllers (property C20).

Written from the property statement and the class docstrings of
``pypose.optim.scheduler.StopOnPlateau`` and ``pypose.utils.ReduceToBason`` -- pure Python, no torch,
never calls the code under test.

Documented stopping conditions (a controller reports ``continual()`` true until, and false from, the
first step at which one of them holds; it stays false until ``reset()``):

  budget    the number of steps taken since construction / reset reached ``steps``
  patience  the last ``patience`` consecutive steps each failed to decrease the loss by the configured
            amount ``decreasing``
  reject    (StopOnPlateau) the optimizer's last step involved a rejection
  tol       (ReduceToBason) all losses of the batch are below ``tol``

What "decrease by the configured amount" means is NOT fixed by the statement: the docstrings say
"relative loss decreasing", the StopOnPlateau docstring example only works with the absolute reading
(last - loss), ReduceToBason divides by the new loss.  ``relation`` therefore classifies a step only
when the three readings agree (with a safety factor); callers generate histories on which they do.

Safety factors.  ``margin=2`` is the generous default.  ``NEAR`` (1.004) is the factor used for the
near-threshold steps (decrease = 0.99*thr resp. 1.01*thr at a loss ~ 1, where the three readings differ by
a factor 1 +- 1.3e-3 at most): the controllers evaluate ``last - loss`` (exact for float32-representable
losses within a factor 2 of each other, Sterbenz), one division and one comparison with ``decreasing``
converted to the working precision - a relative error <= 3 * 2^-24 = 1.8e-7 in float32, four orders of
magnitude below 0.4 %.  Neither docstring says whether a decrease of EXACTLY ``decreasing`` (or a loss of
exactly ``tol``) counts, so no step is ever generated at the threshold itself.

``relation_rel`` is the verdict of the two RELATIVE readings only.  It is used for ReduceToBason alone,
whose docstring says "relative loss decreasing" in the class text and in the ``decreasing`` argument and
contains nothing that contradicts it (StopOnPlateau's docstring example contradicts its text, so for
StopOnPlateau every reading stays acceptable).

A loss of exactly 0 (a perfect fit) is classified with IEEE semantics for x/0: last > 0 -> 0 is a decrease
of ``last`` (absolute), 1 (relative to last), +inf (relative to new); 0 -> positive failed under every
reading; 0 -> 0 is 0/0 under the relative readings and is never called.
"""
import math

INF = float("inf")
READINGS = ("abs", "rel_last", "rel_new")
CAUSES = ("budget", "patience", "reject", "tol")


NEAR = 1.004


def _div(a, b):
    """a / b with IEEE semantics for b == 0"""
    if b != 0.0:
        return a / b
    return float("nan") if a == 0.0 else math.copysign(INF, a)


def amounts(last, loss):
    """the decrease of one step under the three readings (non-negative finite losses)"""
    d = last - loss
    return (d, _div(d, last), _div(d, loss))


def relation(last, loss, thr, margin=2.0):
    """'dec'  : decreased by at least `thr` under every reading, with a factor `margin` to spare
       'fail' : failed to decrease by `thr` under every reading, with a factor `margin` to spare
       None   : the readings disagree or the step is too close to the threshold to call.
    The first step after construction / reset has no previous loss (last = inf): nothing can have
    failed to decrease, 'dec'."""
    if last == INF:
        return "dec"
    if not (0.0 <= last < INF and 0.0 <= loss < INF and thr > 0.0 and margin > 1.0):
        return None
    a = amounts(last, loss)
    if any(x != x for x in a):
        return None
    if min(a) >= margin * thr:
        return "dec"
    if max(a) <= thr / margin:
        return "fail"
    return None


def relation_rel(last, loss, thr, margin=2.0):
    """as `relation`, for the two relative readings (decrease / last, decrease / new) only; positive losses"""
    if last == INF:
        return "dec"
    if not (0.0 < last < INF and 0.0 < loss < INF and thr > 0.0 and margin > 1.0):
        return None
    a = amounts(last, loss)[1:]
    if min(a) >= margin * thr:
        return "dec"
    if max(a) <= thr / margin:
        return "fail"
    return None


def classify(last, loss, thr, mode="agree"):
    """mode 'agree': all three readings, factor 2;  'near': all three readings, factor NEAR;
    'rel': the relative readings only, factor 2 (ReduceToBason)"""
    if mode == "rel":
        return relation_rel(last, loss, thr)
    return relation(last, loss, thr, NEAR if mode == "near" else 2.0)


def relation_exact(last, loss, thr, readings=READINGS):
    """Second formulation for the self-test: exact rational arithmetic on the given doubles.  Returns the set of
    verdicts ('dec' / 'fail' / 'at') of the requested readings and the smallest relative distance
    |amount - thr| / thr over them (positive finite losses)."""
    from fractions import Fraction as Fr
    la, lo, t = Fr(last), Fr(loss), Fr(thr)
    am = {"abs": la - lo, "rel_last": (la - lo) / la, "rel_new": (la - lo) / lo}
    verdicts = {("dec" if am[r] > t else "fail" if am[r] < t else "at") for r in readings}
    return verdicts, float(min(abs(am[r] - t) / t for r in readings))


def step_failed(lasts, losses, thr, mode="agree"):
    """Did this step fail to decrease the (batched) loss?  Docstring of ReduceToBason.step: "all losses
    in the batch has to satisfy the condition to stop a loop" -- the step counts as failed when every
    element failed (equivalently: per-element counters, stop when all reached `patience`, since the run
    of all-failed steps ending now is the minimum of the per-element runs).  True / False / None."""
    rel = [classify(a, b, thr, mode) for a, b in zip(lasts, losses)]
    if any(r == "dec" for r in rel):
        return False
    if all(r == "fail" for r in rel):
        return True
    return None


def all_below(losses, tol, margin=1e-4):
    """all losses below tol?  True / False / None (an element within `margin` of tol is not called)"""
    if any(x >= tol * (1 + margin) for x in losses):
        return False
    if all(x <= tol * (1 - margin) for x in losses):
        return True
    return None


def failed_under(last, loss, thr, reading, rtol=1e-5):
    """exact single-reading verdict for ONE element, used by the driver checks which accept every
    reading: True (failed) / False / None (ill-defined, or within rtol of the threshold)."""
    if last == INF:
        return False
    if not (0.0 < last < INF and 0.0 < loss < INF):
        return None
    a = amounts(last, loss)[READINGS.index(reading)]
    if thr != 0.0 and abs(a - thr) <= rtol * abs(thr):
        return None
    return a < thr        # thr == 0: the sign of a float32 difference is exact


class Automaton(object):
    """state: steps, patience_count, continual (+ bookkeeping: when and why it stopped)"""
    __slots__ = ("max_steps", "patience", "steps", "patience_count", "continual", "stop_step", "stop_causes",
                 "first_true")

    def __init__(self, steps, patience):
        self.max_steps, self.patience = int(steps), int(patience)
        self.reset()

    def reset(self):
        self.steps, self.patience_count, self.continual = 0, 0, True
        self.stop_step, self.stop_causes = 0, ()
        self.first_true = (0, 0, 0, 0)          # per cause: first step at which its condition held (0 = never)

    def step(self, failed, rejected=False, below=False):
        self.steps += 1
        self.patience_count = self.patience_count + 1 if failed else 0
        now = (self.steps >= self.max_steps, self.patience_count >= self.patience, bool(rejected), bool(below))
        if True in now:
            ft = self.first_true
            self.first_true = tuple(f if (f or not n) else self.steps for f, n in zip(ft, now))
            if self.continual:
                self.continual = False
                self.stop_step = self.steps
                self.stop_causes = tuple(c for c, n in zip(CAUSES, now) if n)
        return self.continual

    # cheap snapshots for the prefix-sharing enumeration
    def get(self):
        return (self.steps, self.patience_count, self.continual, self.stop_step, self.stop_causes, self.first_true)

    def set(self, s):
        self.steps, self.patience_count, self.continual, self.stop_step, self.stop_causes, self.first_true = s

    def causes_at_different_steps(self):
        return len({f for f in self.first_true if f}) >= 2


def stop_step_by_definition(history, steps, patience):
    """Second, non-incremental formulation used by the self-test: history = [(failed, rejected, below)];
    returns the first 1-based step t at which a documented condition holds (0 if none)."""
    for t in range(1, len(history) + 1):
        if t >= steps:
            return t
        if t >= patience and all(h[0] for h in history[t - patience:t]):
            return t
        if history[t - 1][1] or history[t - 1][2]:
            return t
    return 0
