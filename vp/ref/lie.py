"""Reference Lie-group algebra, written from the mathematical definitions.

numpy float64 for everything that is exact up to round-off (quaternion products, matrices,
adjoints); mpmath (precision chosen from the magnitudes) for exponentials.

Layouts (pypose's documented ones):
    SO3   [qx qy qz qw]            so3   [phi(3)]
    SE3   [t(3) q(4)]              se3   [tau(3) phi(3)]
    RxSO3 [q(4) s]                 rxso3 [phi(3) sigma]
    Sim3  [t(3) q(4) s]            sim3  [tau(3) phi(3) sigma]
"""
import math
import numpy as np
import mpmath as mp

GROUPS = ("SO3", "SE3", "RxSO3", "Sim3")
ALGEBRAS = ("so3", "se3", "rxso3", "sim3")
ALG_OF = dict(zip(GROUPS, ALGEBRAS))
GRP_OF = dict(zip(ALGEBRAS, GROUPS))
GDIM = {"SO3": 4, "SE3": 7, "RxSO3": 5, "Sim3": 8}
ADIM = {"so3": 3, "se3": 6, "rxso3": 4, "sim3": 7}
MDIM = {"SO3": 3, "SE3": 6, "RxSO3": 4, "Sim3": 7}


def skew(v):
    x, y, z = v
    return np.array([[0.0, -z, y], [z, 0.0, -x], [-y, x, 0.0]])


def split_group(lt, X):
    """-> t(3), q(4), s(float) from a group element (1-D array)"""
    X = np.asarray(X, dtype=np.float64)
    if lt == "SO3":
        return np.zeros(3), X[:4], 1.0
    if lt == "SE3":
        return X[:3], X[3:7], 1.0
    if lt == "RxSO3":
        return np.zeros(3), X[:4], float(X[4])
    if lt == "Sim3":
        return X[:3], X[3:7], float(X[7])
    raise ValueError(lt)


def join_group(lt, t, q, s):
    if lt == "SO3":
        return np.array(q, dtype=np.float64)
    if lt == "SE3":
        return np.concatenate([t, q])
    if lt == "RxSO3":
        return np.concatenate([q, [s]])
    if lt == "Sim3":
        return np.concatenate([t, q, [s]])
    raise ValueError(lt)


def split_alg(lt, x):
    """-> tau(3), phi(3), sigma"""
    x = np.asarray(x, dtype=np.float64)
    if lt == "so3":
        return np.zeros(3), x[:3], 0.0
    if lt == "se3":
        return x[:3], x[3:6], 0.0
    if lt == "rxso3":
        return np.zeros(3), x[:3], float(x[3])
    if lt == "sim3":
        return x[:3], x[3:6], float(x[6])
    raise ValueError(lt)


def join_alg(lt, tau, phi, sigma):
    if lt == "so3":
        return np.array(phi, dtype=np.float64)
    if lt == "se3":
        return np.concatenate([tau, phi])
    if lt == "rxso3":
        return np.concatenate([phi, [sigma]])
    if lt == "sim3":
        return np.concatenate([tau, phi, [sigma]])
    raise ValueError(lt)


def qrot(q):
    """rotation matrix of a (nearly) unit quaternion [x y z w]; exact rotation of q/|q|"""
    q = np.asarray(q, dtype=np.float64)
    n2 = float(q @ q)
    x, y, z, w = q
    return np.array([
        [w*w + x*x - y*y - z*z, 2*(x*y - w*z), 2*(x*z + w*y)],
        [2*(x*y + w*z), w*w - x*x + y*y - z*z, 2*(y*z - w*x)],
        [2*(x*z - w*y), 2*(y*z + w*x), w*w - x*x - y*y + z*z]]) / n2


def qmul(a, b):
    av, aw, bv, bw = a[:3], a[3], b[:3], b[3]
    v = aw * bv + bw * av + np.cross(av, bv)
    return np.concatenate([v, [aw * bw - av @ bv]])


def qconj(q):
    return np.array([-q[0], -q[1], -q[2], q[3]])


def mat4(lt, X):
    """4x4 representation [[sR t],[0 1]]"""
    t, q, s = split_group(lt, X)
    M = np.eye(4)
    M[:3, :3] = s * qrot(q)
    M[:3, 3] = t
    return M


def mat(lt, X):
    """documented matrix(): 3x3 for SO3, 4x4 otherwise"""
    M = mat4(lt, X)
    return M[:3, :3] if lt == "SO3" else M


def mul(lt, X, Y):
    tx, qx, sx = split_group(lt, X)
    ty, qy, sy = split_group(lt, Y)
    return join_group(lt, tx + sx * (qrot(qx) @ ty), qmul(qx, qy), sx * sy)


def inv(lt, X):
    t, q, s = split_group(lt, X)
    qi = qconj(q) / float(q @ q)
    return join_group(lt, -(qrot(qi) @ t) / s, qi, 1.0 / s)


def identity(lt):
    return join_group(lt, np.zeros(3), np.array([0.0, 0, 0, 1.0]), 1.0)


def hat(lt, x):
    """generator matrix of an algebra element (3x3 for so3, 4x4 otherwise)"""
    tau, phi, sigma = split_alg(lt, x)
    if lt == "so3":
        return skew(phi)
    M = np.zeros((4, 4))
    M[:3, :3] = skew(phi) + sigma * np.eye(3)
    M[:3, 3] = tau
    return M


# ------------------------------------------------------------------------------------
# exponentials
def _dps_for(*vals):
    m = 0
    for v in vals:
        v = abs(float(v))
        if v != 0 and v < 1:
            m = max(m, -math.log10(v))
    return int(60 + 3 * m)


def exp_mp(lt, x):
    """High-precision closed-form exponential of an algebra element (given as floats).
    Returns dict with mp matrices/values: R (3x3), W (3x3), t (3), s, q (4: x y z w).
      R = exp([phi]x),  s = e^sigma,  W = int_0^1 exp(u (sigma I + [phi]x)) du,  t = W tau.
    """
    tau, phi, sigma = split_alg(lt, x)
    th2f = float(phi @ phi)
    old = mp.mp.dps
    mp.mp.dps = _dps_for(math.sqrt(th2f) if th2f > 0 else 0.0, sigma)
    try:
        p = [mp.mpf(float(v)) for v in phi]
        th = mp.sqrt(p[0]**2 + p[1]**2 + p[2]**2)
        sg = mp.mpf(float(sigma))
        K = mp.matrix([[0, -p[2], p[1]], [p[2], 0, -p[0]], [-p[1], p[0], 0]])
        K2 = K * K
        I = mp.eye(3)
        s = mp.exp(sg)
        fs = mp.expm1(sg) / sg if sg != 0 else mp.mpf(1)      # f(sigma) = (e^sigma - 1)/sigma
        if th == 0:
            R = I
            W = fs * I
            Wabs = abs(fs) * I
            q = [mp.mpf(0), mp.mpf(0), mp.mpf(0), mp.mpf(1)]
        else:
            R = I + (mp.sin(th) / th) * K + ((1 - mp.cos(th)) / th**2) * K2
            z = mp.mpc(sg, th)
            fz = mp.expm1(z) / z
            A = mp.im(fz) / th
            B = (fs - mp.re(fz)) / th**2
            W = fs * I + A * K + B * K2
            # entrywise bound of the terms W is assembled from (the entries of W itself can
            # cancel, e.g. W = n n^T at theta = 2 pi): forward bound of t = W tau
            Wabs = abs(fs) * I + abs(A) * K.apply(abs) + abs(B) * K2.apply(abs)
            h = mp.sin(th / 2) / th
            q = [h * p[0], h * p[1], h * p[2], mp.cos(th / 2)]
        tv = mp.matrix([mp.mpf(float(v)) for v in tau])
        t = W * tv
        return {"R": R, "W": W, "t": t, "s": s, "q": q, "dps": mp.mp.dps,
                "absWtau": [sum(Wabs[i, j] * abs(tv[j]) for j in range(3)) for i in range(3)]}
    finally:
        mp.mp.dps = old


def _mp2np(M):
    return np.array([[float(M[i, j]) for j in range(M.cols)] for i in range(M.rows)])


def exp_ref_parts(lt, x):
    """float64 roundings of exp_mp: R, t, s, q, |W||tau|"""
    e = exp_mp(lt, x)
    return {"R": _mp2np(e["R"]), "t": np.array([float(v) for v in e["t"]]), "s": float(e["s"]),
            "q": np.array([float(v) for v in e["q"]]), "W": _mp2np(e["W"]),
            "absWtau": np.array([float(v) for v in e["absWtau"]])}


def exp_ref(lt, x):
    """reference Exp as a group element (float64 rounding of the mpmath closed form)"""
    e = exp_ref_parts(lt, x)
    return join_group(GRP_OF[lt], e["t"], e["q"], e["s"])


def expm_mp(M, dps=80):
    """generic matrix exponential in mpmath (Taylor with scaling and squaring) - used only to
    self-test the closed form"""
    old = mp.mp.dps
    mp.mp.dps = dps
    try:
        A = mp.matrix(M.tolist())
        return _mp2np(mp.expm(A, method="taylor"))
    finally:
        mp.mp.dps = old


# fast float64 exponential (for finite-difference perturbations; accurate to ~1e-15) -----------
def _sinc_half(th):            # sin(th/2)/th
    if th < 1e-4:
        t2 = th * th
        return 0.5 - t2 / 48.0 + t2 * t2 / 3840.0
    return math.sin(0.5 * th) / th


def _ab(th):
    """A=(1-cos)/th^2, B=(th-sin)/th^3 in float64, series below 1e-2 (enough terms)"""
    t2 = th * th
    if th < 2e-2:
        A = 0.5 - t2 / 24 + t2 * t2 / 720 - t2**3 / 40320
        B = 1.0 / 6 - t2 / 120 + t2 * t2 / 5040 - t2**3 / 362880
        return A, B
    return (1 - math.cos(th)) / t2, (th - math.sin(th)) / (t2 * th)


def exp_np(lt, x):
    """float64 exponential.  so3/se3/rxso3 in closed form with series; sim3 via mpmath when
    sigma != 0 (rare in finite differences it is still cheap enough)."""
    tau, phi, sigma = split_alg(lt, x)
    if lt == "sim3" and sigma != 0.0 and np.any(tau != 0):
        return exp_ref(lt, x)
    th = float(np.linalg.norm(phi))
    q = np.concatenate([_sinc_half(th) * phi, [math.cos(0.5 * th)]])
    A, B = _ab(th)
    K = skew(phi)
    V = np.eye(3) + A * K + B * (K @ K)
    return join_group(GRP_OF[lt], V @ tau, q, math.exp(sigma))


# ------------------------------------------------------------------------------------
# adjoints (algebra order [tau, phi, sigma])
def vee(lt, M):
    if lt == "so3":
        return np.array([M[2, 1], M[0, 2], M[1, 0]])
    S = M[:3, :3]
    phi = np.array([S[2, 1] - S[1, 2], S[0, 2] - S[2, 0], S[1, 0] - S[0, 1]]) / 2
    sigma = np.trace(S) / 3
    return join_alg(lt, M[:3, 3], phi, sigma)


def Ad(glt, X):
    """adjoint matrix from the matrix Lie algebra: hat(Ad a) = M hat(a) M^-1"""
    alt = ALG_OF[glt]
    n = ADIM[alt]
    M = mat(glt, X) if glt == "SO3" else mat4(glt, X)
    Mi = np.linalg.inv(M)
    cols = []
    for i in range(n):
        e = np.zeros(n)
        e[i] = 1.0
        cols.append(vee(alt, M @ hat(alt, e) @ Mi))
    return np.stack(cols, axis=1)


def ad(alt, x):
    """ad matrix: hat(ad(x) y) = [hat x, hat y]"""
    n = ADIM[alt]
    H = hat(alt, x)
    cols = []
    for i in range(n):
        e = np.zeros(n)
        e[i] = 1.0
        E = hat(alt, e)
        cols.append(vee(alt, H @ E - E @ H))
    return np.stack(cols, axis=1)


def phi1(A, terms=40):
    """sum_k A^k/(k+1)!  (left Jacobian = phi1(ad x)) in float64 with scaling; A small (<~8)"""
    n = A.shape[0]
    # use expm of the augmented matrix [[A, I],[0, 0]] -> top-right block is phi1(A)
    Z = np.zeros((2 * n, 2 * n))
    Z[:n, :n] = A
    Z[:n, n:] = np.eye(n)
    return expm_np(Z)[:n, n:]


def expm_np(A):
    """float64 scaling-and-squaring Taylor exponential (independent of torch)"""
    nrm = np.linalg.norm(A, 1)
    k = max(0, int(math.ceil(math.log2(nrm))) + 4) if nrm > 0 else 0
    B = A / (2.0 ** k)
    E = np.eye(A.shape[0])
    T = np.eye(A.shape[0])
    for i in range(1, 25):
        T = T @ B / i
        E = E + T
    for _ in range(k):
        E = E @ E
    return E


def rot_angle(R):
    """angle of a rotation matrix, accurate near 0 and pi"""
    v = np.array([R[2, 1] - R[1, 2], R[0, 2] - R[2, 0], R[1, 0] - R[0, 1]])
    return math.atan2(np.linalg.norm(v) / 2, (np.trace(R) - 1) / 2)


def quat_angle(q):
    q = np.asarray(q, dtype=np.float64)
    return 2 * math.atan2(np.linalg.norm(q[:3]), abs(q[3]))


# ------------------------------------------------------------------------------------
# logarithm (numpy float64, principal branch) and Jacobians
def W_np(phi, sigma):
    """W = int_0^1 exp(u (sigma I + [phi]x)) du in float64 (via the mp closed form)"""
    x = np.concatenate([np.zeros(3), phi, [sigma]])
    return exp_ref_parts("sim3", x)["W"]


def log_np(glt, X):
    """principal logarithm of a group element (float64); rotation angle in [0, pi]"""
    t, q, s = split_group(glt, X)
    q = np.asarray(q, dtype=np.float64)
    q = q / np.linalg.norm(q)
    if q[3] < 0:
        q = -q
    vn = float(np.linalg.norm(q[:3]))
    if vn < 1e-150:
        phi = 2.0 * q[:3]
    else:
        phi = (2.0 * math.atan2(vn, q[3]) / vn) * q[:3]
    sigma = math.log(s) if glt in ("RxSO3", "Sim3") else 0.0
    alt = ALG_OF[glt]
    if glt in ("SE3", "Sim3"):
        tau = np.linalg.solve(W_np(phi, sigma), t)
    else:
        tau = np.zeros(3)
    return join_alg(alt, tau, phi, sigma)


def Jl(alt, x):
    """left Jacobian of the exponential: phi1(ad x)"""
    return phi1(ad(alt, x))


def Jl_inv(alt, x):
    return np.linalg.inv(Jl(alt, x))
