"""Reference models for C15 (numpy / sympy only, written from the definitions).

* affine maps  y = M x + N u + c  with numpy einsum (broadcast over leading batch axes) and the matching
  magnitude  |M||x| + |N||u| + |c|  used to scale round-off tolerances;
* an integer clock (every call advances it by exactly one; reset / assignment set it);
* smooth functions f(x, u, t), g(x, u, t) described by plain-JSON term lists, turned into sympy expressions;
  values, the four partial Jacobians and the 2nd / 3rd directional derivatives along (dx, du) are obtained
  symbolically (sympy.diff) and evaluated with the `math` module;
* a second, independent evaluator of the term lists (used by the self test and for magnitude scales);
* first-order round-off scales of the values and of the partial derivatives of a term list (roundoff_scale,
  jac_roundoff_scale): the float32 tolerances of C15 are 2 eps times these.

Term-list grammar (everything is JSON):
    spec      = {"n": int, "m": int, "f": [component]*n, "g": [component]*p}
    component = [term, ...]                sum of terms (may be empty: the zero function)
    term      = [coef, [atom, ...]]        coef * product of atoms
    atom      = ["x", i, k]  x_i**k        | ["u", j, k]  u_j**k          (k in 1..3)
              | ["sx", i, w] sin(w x_i)    | ["cx", i, w] cos(w x_i)
              | ["su", j, w] sin(w u_j)    | ["cu", j, w] cos(w u_j)
              | ["tl"]       t / 8         | ["ts", w]    sin(w t)        | ["tc", w]  cos(w t)
"""
import functools
import json
import math

import numpy as np
import sympy as sp


# ----------------------------------------------------------------------------------------------------
# linear systems
def matvec(M, x):
    return np.einsum("...ij,...j->...i", M, x)


def affine(M, x, N, u, c=None):
    y = matvec(M, x) + matvec(N, u)
    return y if c is None else y + c


def affine_mag(M, x, N, u, c=None):
    y = matvec(np.abs(M), np.abs(x)) + matvec(np.abs(N), np.abs(u))
    return y if c is None else y + np.abs(c)


class Clock:
    """the documented time bookkeeping: starts at 0, +1 per call, reset(t=0) / assignment set it"""

    def __init__(self):
        self.t = 0

    def call(self):
        now = self.t
        self.t += 1
        return now          # the time at which the call is evaluated

    def set(self, t=0):
        self.t = int(t)


# ----------------------------------------------------------------------------------------------------
# term lists -> numbers (independent evaluator)
def atom_value(a, x, u, t):
    k = a[0]
    if k == "x":
        return x[a[1]] ** a[2]
    if k == "u":
        return u[a[1]] ** a[2]
    if k == "sx":
        return math.sin(a[2] * x[a[1]])
    if k == "cx":
        return math.cos(a[2] * x[a[1]])
    if k == "su":
        return math.sin(a[2] * u[a[1]])
    if k == "cu":
        return math.cos(a[2] * u[a[1]])
    if k == "tl":
        return t / 8.0
    if k == "ts":
        return math.sin(a[1] * t)
    if k == "tc":
        return math.cos(a[1] * t)
    raise ValueError("unknown atom %r" % (a,))


def eval_components(comps, x, u, t, absolute=False):
    """values of a list of components; absolute=True gives sum |coef| prod |atom| (round-off scale)"""
    out = []
    for comp in comps:
        acc = 0.0
        for coef, atoms in comp:
            v = float(coef)
            for a in atoms:
                v *= atom_value(a, x, u, t)
            acc += abs(v) if absolute else v
        out.append(acc)
    return np.array(out, dtype=np.float64)


def spec_ok(spec):
    """structural validity (used by the shrinker's validity predicate)"""
    try:
        n, m = spec["n"], spec["m"]
        if n < 1 or m < 1 or len(spec["f"]) != n or len(spec["g"]) < 1:
            return False
        for comp in spec["f"] + spec["g"]:
            for coef, atoms in comp:
                if not math.isfinite(float(coef)) or abs(float(coef)) > 8:
                    return False
                for a in atoms:
                    if a[0] in ("x", "sx", "cx") and not 0 <= a[1] < n:
                        return False
                    if a[0] in ("u", "su", "cu") and not 0 <= a[1] < m:
                        return False
                    if a[0] in ("x", "u") and a[2] not in (1, 2, 3):
                        return False
                    if a[0] in ("sx", "cx", "su", "cu") and not 0 < abs(a[2]) <= 4:
                        return False
                    if a[0] in ("ts", "tc") and not 0 < abs(a[1]) <= 4:
                        return False
                    if a[0] not in ("x", "u", "sx", "cx", "su", "cu", "tl", "ts", "tc"):
                        return False
        return True
    except Exception:
        return False


def has_time(comps):
    return any(a[0] in ("tl", "ts", "tc") and float(coef) != 0.0 for comp in comps for coef, atoms in comp for a in atoms)


# ----------------------------------------------------------------------------------------------------
# round-off model of a term list evaluated in floating point (any association / order of the products and sums)
def _atom_round(a, x, u, t):
    """(m, kap, var, dm, dkap):  |atom| <= m and the computed atom is within kap*eps*m of its value;  var = ("x", i) /
    ("u", j) / None is the variable it depends on, |d atom / d var| <= dm, computed within dkap*eps*dm.
    powers: p-1 multiplications or a pow within 2 ulp -> p+1 (derivative p x^(p-1): one more product);
    sin/cos(w v): one rounding of the argument product (eps |w v|, slope <= 1) + 2 ulp of the function, both relative
    to the bound 1 (NOT to |sin|, which may vanish) -> |w v| + 2 (derivative w cos: one more product);
    t/8: one rounding."""
    k = a[0]
    if k in ("x", "u"):
        v, p = abs(float((x if k == "x" else u)[a[1]])), int(a[2])
        return v ** p, p + 1.0, (k, a[1]), p * v ** (p - 1), p + 2.0
    if k in ("sx", "cx", "su", "cu"):
        arg = abs(float(a[2]) * float((x if k[1] == "x" else u)[a[1]]))
        return 1.0, arg + 2.0, (k[1], a[1]), abs(float(a[2])), arg + 3.0
    if k == "tl":
        return abs(float(t)) / 8.0, 1.0, None, 0.0, 0.0
    if k in ("ts", "tc"):
        return 1.0, abs(float(a[1]) * float(t)) + 2.0, None, 0.0, 0.0
    raise ValueError("unknown atom %r" % (a,))


def roundoff_scale(comps, x, u, t):
    """S (one number per component) with |fl(component) - component| <= eps * S to first order:  a product of q factors
    with relative errors kap_i eps costs (sum kap_i + q) eps of its magnitude bound (q multiplications incl. the
    coefficient), the sum of r terms r more eps of the sum of the magnitude bounds."""
    out = []
    for comp in comps:
        S = tot = 0.0
        for coef, atoms in comp:
            info = [_atom_round(a, x, u, t) for a in atoms]
            P = abs(float(coef))
            for i in info:
                P *= i[0]
            S += P * (sum(i[1] for i in info) + len(atoms) + 1.0)
            tot += P
        out.append(S + len(comp) * tot)
    return np.array(out, dtype=np.float64)


def jac_roundoff_scale(comps, n, m, x, u, t):
    """(Sx, Su): the same for the partial derivatives d component / d x_i, d component / d u_j (product rule: one
    path per atom that depends on the variable; back-propagation multiplies exactly these factors)."""
    Sx, Su = np.zeros((len(comps), n)), np.zeros((len(comps), m))
    for ci, comp in enumerate(comps):
        S, tot, paths = np.zeros(n + m), np.zeros(n + m), np.zeros(n + m)
        for coef, atoms in comp:
            info = [_atom_round(a, x, u, t) for a in atoms]
            for ai, (_, _, var, dm, dkap) in enumerate(info):
                if var is None:
                    continue
                col = var[1] + (0 if var[0] == "x" else n)
                P, K = abs(float(coef)) * dm, dkap + len(atoms) + 1.0
                for bi, b in enumerate(info):
                    if bi != ai:
                        P *= b[0]
                        K += b[1]
                S[col] += P * K
                tot[col] += P
                paths[col] += 1
        S += (paths + 1.0) * tot
        Sx[ci], Su[ci] = S[:n], S[n:]
    return Sx, Su


# ----------------------------------------------------------------------------------------------------
# term lists -> sympy
def _q(v):
    return sp.Rational(float(v))        # exact binary value of the double


def _atom_expr(a, xs, us, t):
    k = a[0]
    if k == "x":
        return xs[a[1]] ** int(a[2])
    if k == "u":
        return us[a[1]] ** int(a[2])
    if k == "sx":
        return sp.sin(_q(a[2]) * xs[a[1]])
    if k == "cx":
        return sp.cos(_q(a[2]) * xs[a[1]])
    if k == "su":
        return sp.sin(_q(a[2]) * us[a[1]])
    if k == "cu":
        return sp.cos(_q(a[2]) * us[a[1]])
    if k == "tl":
        return t / 8
    if k == "ts":
        return sp.sin(_q(a[1]) * t)
    if k == "tc":
        return sp.cos(_q(a[1]) * t)
    raise ValueError("unknown atom %r" % (a,))


def _comp_expr(comp, xs, us, t):
    e = sp.Integer(0)
    for coef, atoms in comp:
        term = _q(coef)
        for a in atoms:
            term = term * _atom_expr(a, xs, us, t)
        e = e + term
    return e


class Model:
    """symbolic f, g with Jacobians and directional derivatives; evaluation through one lambdified function.
    light=True leaves the 2nd / 3rd directional derivatives out (values and Jacobians only; ~5x cheaper to build)."""

    def __init__(self, spec, light=False):
        self.spec = spec
        self.light = light
        n, m, p = spec["n"], spec["m"], len(spec["g"])
        self.n, self.m, self.p = n, m, p
        self.xs = sp.symbols("x0:%d" % n, real=True)
        self.us = sp.symbols("u0:%d" % m, real=True)
        self.t = sp.Symbol("t", real=True)
        dxs = sp.symbols("dx0:%d" % n, real=True)
        dus = sp.symbols("du0:%d" % m, real=True)
        s = sp.Symbol("s", real=True)
        self.F = [_comp_expr(c, self.xs, self.us, self.t) for c in spec["f"]]
        self.G = [_comp_expr(c, self.xs, self.us, self.t) for c in spec["g"]]
        self.f_tdep = any(e.has(self.t) for e in self.F)
        self.g_tdep = any(e.has(self.t) for e in self.G)
        shift = {v: v + s * d for v, d in zip(self.xs + self.us, dxs + dus)}
        flat = list(self.F) + list(self.G)
        for E in (self.F, self.G):
            for e in E:
                flat += [sp.diff(e, v) for v in self.xs]
            for e in E:
                flat += [sp.diff(e, v) for v in self.us]
        for E in (() if light else (self.F, self.G)):
            line = [e.xreplace(shift) for e in E]
            flat += [sp.diff(e, s, 2) for e in line]
            flat += [sp.diff(e, s, 3) for e in line]
        self._args = list(self.xs) + list(self.us) + [self.t] + list(dxs) + list(dus) + [s]
        self._num = sp.lambdify(self._args, flat, modules="math", cse=False)

    def _eval(self, x, u, t, dx=None, du=None, s=0.0):
        n, m, p = self.n, self.m, self.p
        dx = [0.0] * n if dx is None else dx
        du = [0.0] * m if du is None else du
        v = [float(z) for z in self._num(*[float(z) for z in x], *[float(z) for z in u], float(t),
                                          *[float(z) for z in dx], *[float(z) for z in du], float(s))]
        o = {}
        i = 0

        def take(k, shape=None):
            nonlocal i
            a = np.array(v[i:i + k], dtype=np.float64)
            i += k
            return a if shape is None else a.reshape(shape)
        o["f"], o["g"] = take(n), take(p)
        o["A"], o["B"] = take(n * n, (n, n)), take(n * m, (n, m))
        o["C"], o["D"] = take(p * n, (p, n)), take(p * m, (p, m))
        if not self.light:
            o["f2"], o["f3"], o["g2"], o["g3"] = take(n), take(n), take(p), take(p)
        assert i == len(v)
        return o

    def values(self, x, u, t):
        """f, g and the partial Jacobians A=df/dx, B=df/du, C=dg/dx, D=dg/du at (x, u, t)"""
        return self._eval(x, u, t)

    def fg(self, x, u, t):
        o = self._eval(x, u, t)
        return o["f"], o["g"]

    def line_bounds(self, x, u, t, dx, du, smax, k=17):
        """|phi''(0)| and sampled sup over s in [0, smax] of |phi''(s)|, |phi'''(s)| for
        phi(s) = f(x + s dx, u + s du, t) (and g): 2-norms over the components"""
        assert not self.light
        out = {}
        o0 = self._eval(x, u, t, dx, du, 0.0)
        for w in ("f", "g"):
            out[w] = {"m2_0": float(np.linalg.norm(o0[w + "2"])), "m2": 0.0, "m3": 0.0}
        for s in np.linspace(0.0, smax, k):
            o = self._eval(x, u, t, dx, du, s)
            for w in ("f", "g"):
                out[w]["m2"] = max(out[w]["m2"], float(np.linalg.norm(o[w + "2"])))
                out[w]["m3"] = max(out[w]["m3"], float(np.linalg.norm(o[w + "3"])))
        return out


@functools.lru_cache(maxsize=256)
def _model_cached(key, light=False):
    return Model(json.loads(key), light)


def model(spec, light=False):
    return _model_cached(json.dumps(spec, sort_keys=True), light)


# ----------------------------------------------------------------------------------------------------
def selftest():
    rs = np.random.RandomState(11)
    spec = {"n": 2, "m": 2,
            "f": [[[0.75, [["x", 0, 2], ["ts", 0.5]]], [-1.25, [["u", 1, 1], ["cx", 1, 2.0]]], [0.5, []]],
                  [[1.5, [["x", 1, 3], ["tl"]]], [0.25, [["su", 0, 1.0], ["x", 0, 1]]]]],
            "g": [[[2.0, [["cu", 1, 0.5], ["tc", 0.25], ["x", 0, 1]]], [-0.5, [["u", 0, 2]]]]]}
    assert spec_ok(spec)
    M = model(spec)
    assert M.f_tdep and M.g_tdep
    for _ in range(5):
        x, u, t = rs.uniform(-2, 2, 2), rs.uniform(-2, 2, 2), float(rs.randint(0, 20))
        o = M.values(x, u, t)
        # (1) sympy value == independent interpreter
        assert np.allclose(o["f"], eval_components(spec["f"], x, u, t), rtol=0, atol=1e-13)
        assert np.allclose(o["g"], eval_components(spec["g"], x, u, t), rtol=0, atol=1e-13)
        # (2) symbolic Jacobians == central differences of the independent interpreter
        h = 1e-6
        for name, comps, wrt, dim in (("A", "f", 0, 2), ("B", "f", 1, 2), ("C", "g", 0, 2), ("D", "g", 1, 2)):
            J = np.zeros_like(o[name])
            for j in range(dim):
                e = np.zeros(dim); e[j] = h
                xp, xm, up, um = (x + e, x - e, u, u) if wrt == 0 else (x, x, u + e, u - e)
                J[:, j] = (eval_components(spec[comps], xp, up, t) - eval_components(spec[comps], xm, um, t)) / (2 * h)
            assert np.allclose(J, o[name], rtol=0, atol=1e-7), (name, J, o[name])
        # (3) second directional derivative == second difference
        d = rs.randn(4); d /= np.linalg.norm(d)
        dx, du = d[:2], d[2:]
        lb = M.line_bounds(x, u, t, dx, du, 0.1)
        h = 1e-4
        f2 = (eval_components(spec["f"], x + h * dx, u + h * du, t) - 2 * eval_components(spec["f"], x, u, t)
              + eval_components(spec["f"], x - h * dx, u - h * du, t)) / h ** 2
        assert abs(np.linalg.norm(f2) - lb["f"]["m2_0"]) <= 1e-5 * max(1.0, lb["f"]["m2_0"]), (f2, lb)
        assert lb["f"]["m2"] >= lb["f"]["m2_0"]
    # round-off scales: they dominate the magnitudes (|f| <= S, |J| <= S_jac), the term list evaluated in float32 numpy
    # arithmetic stays within 2 eps32 S of the float64 value, and the light model gives the same values / Jacobians
    ML = model(spec, light=True)
    e32 = float(np.finfo(np.float32).eps)
    f32 = np.float32
    fun32 = {"s": np.sin, "c": np.cos}
    for _ in range(20):
        x, u = rs.uniform(-2, 2, 2).astype(f32), rs.uniform(-2, 2, 2).astype(f32)
        t = int(rs.randint(0, 100))
        xd, ud = x.astype(np.float64), u.astype(np.float64)
        o, ol = M.values(xd, ud, t), ML.values(xd, ud, t)
        assert all(np.array_equal(o[k], ol[k]) for k in ("f", "g", "A", "B", "C", "D")) and "f2" not in ol
        for part, (jx, ju) in (("f", ("A", "B")), ("g", ("C", "D"))):
            S = roundoff_scale(spec[part], xd, ud, t)
            Sx, Su = jac_roundoff_scale(spec[part], 2, 2, xd, ud, t)
            assert np.all(S >= np.abs(o[part])) and np.all(Sx >= np.abs(o[jx])) and np.all(Su >= np.abs(o[ju]))
            for ci, comp in enumerate(spec[part]):
                acc = f32(0)
                for coef, atoms in comp:
                    v = f32(coef)
                    for a in atoms:
                        if a[0] in ("x", "u"):
                            v = v * (x if a[0] == "x" else u)[a[1]] ** f32(a[2])
                        elif a[0] == "tl":
                            v = v * (f32(t) / f32(8))
                        elif a[0] in ("ts", "tc"):
                            v = v * fun32[a[0][1]](f32(a[1]) * f32(t))
                        else:
                            v = v * fun32[a[0][0]](f32(a[2]) * (x if a[0][1] == "x" else u)[a[1]])
                    acc = acc + v
                assert abs(float(acc) - o[part][ci]) <= 2 * e32 * S[ci], (part, ci, float(acc), o[part][ci], S[ci])
    # einsum reference == explicit loops
    A, xx, B, uu, c = rs.randn(3, 2, 4), rs.randn(4), rs.randn(2, 5), rs.randn(3, 5), rs.randn(2)
    y = affine(A, xx, B, uu, c)
    for b in range(3):
        for i in range(2):
            ref = sum(A[b, i, j] * xx[j] for j in range(4)) + sum(B[i, j] * uu[b, j] for j in range(5)) + c[i]
            assert abs(y[b, i] - ref) < 1e-13
    ck = Clock()
    ck.set(8)
    assert ck.call() == 8 and ck.t == 9      # NLS docstring example: reset(t=8), one call -> 9
