"""torch / pypose helpers shared by the property modules"""
import numpy as np
import torch
import pypose as pp

TD = {"float32": torch.float32, "float64": torch.float64}
EPS = {"float32": float(np.finfo(np.float32).eps), "float64": float(np.finfo(np.float64).eps)}
LT = {"SO3": pp.SO3_type, "SE3": pp.SE3_type, "RxSO3": pp.RxSO3_type, "Sim3": pp.Sim3_type,
      "so3": pp.so3_type, "se3": pp.se3_type, "rxso3": pp.rxso3_type, "sim3": pp.sim3_type}
LTNAME = {v: k for k, v in LT.items()}


def lie(ltype, data, dtype="float64", shape=None, requires_grad=False):
    t = torch.tensor(data, dtype=TD[dtype])
    if shape is not None:
        t = t.reshape(tuple(shape) + (t.shape[-1],))
    x = pp.LieTensor(t, ltype=LT[ltype])
    if requires_grad:
        x.requires_grad_(True)
    return x


def tens(data, dtype="float64"):
    return torch.tensor(data, dtype=TD[dtype])


def npy(t):
    if isinstance(t, pp.LieTensor):
        t = t.tensor()
    return t.detach().to(torch.float64).cpu().numpy()


def ltname(x):
    return LTNAME.get(x.ltype, str(x.ltype))
