"""torch / pypose helpers shared by the property modules"""
import numpy as np
import torch
import pypose as pp

TD = {"float32": torch.float32, "float64": torch.float64}
EPS = {"float32": float(np.finfo(np.float32).eps), "float64": float(np.finfo(np.float64).eps)}
LT = {"SO3": pp.SO3_type, "SE3": pp.SE3_type, "RxSO3": pp.RxSO3_type, "Sim3": pp.Sim3_type,
      "so3": pp.so3_type, "se3": pp.se3_type, "rxso3": pp.rxso3_type, "sim3": pp.sim3_type}
LTNAME = {v: k for k, v in LT.items()}


VIEWS = ("contiguous", "contiguous", "transposed", "strided")


def relayout(t, view):
    """the same values in another memory layout: 'transposed' = batch dimensions stored in reversed order (a permuted view, needs
    two batch extents > 1, else unchanged), 'strided' = every other row of a twice as long buffer.  Layout is an input dimension of
    every operation (out= buffers, view()/reshape() of intermediates, in-place writes)."""
    nb = t.dim() - 1
    if view == "transposed" and nb >= 2 and t.numel() > 0 and sum(1 for e in t.shape[:-1] if e > 1) >= 2:
        perm = list(range(nb))[::-1] + [nb]
        return t.permute(*perm).contiguous().permute(*perm)
    if view == "strided" and nb >= 1 and t.shape[0] > 0:
        big = torch.zeros((2 * t.shape[0],) + tuple(t.shape[1:]), dtype=t.dtype)
        big[::2] = t
        return big[::2]
    return t


def view_of(case, salt=""):
    """memory layout of an operand as a pure function of the case (for modules whose cases carry no explicit 'view' field)"""
    import json, zlib
    return VIEWS[zlib.crc32((json.dumps(case, sort_keys=True, default=str) + salt).encode()) % len(VIEWS)]


def crc(case, salt=""):
    """a small integer that is a pure function of the case (for choices that the case does not carry as a field)"""
    import json, zlib
    return zlib.crc32((json.dumps(case, sort_keys=True, default=str) + salt).encode())


def lie(ltype, data, dtype="float64", shape=None, requires_grad=False, view=None):
    t = torch.tensor(data, dtype=TD[dtype])
    if shape is not None:
        t = t.reshape(tuple(shape) + (t.shape[-1],))
    if view:
        t = relayout(t, view)
    x = pp.LieTensor(t, ltype=LT[ltype])
    if requires_grad:
        x.requires_grad_(True)
    return x


def tens(data, dtype="float64"):
    return torch.tensor(data, dtype=TD[dtype])


def npy(t):
    if isinstance(t, pp.LieTensor):
        t = t.tensor()
    return t.detach().to(torch.float64).cpu().numpy()


def ltname(x):
    return LTNAME.get(x.ltype, str(x.ltype))
