"""Hypothesis strategies: regime-directed magnitudes, directions, algebra / group elements,
batch shapes.  Everything produced is plain JSON data (python floats / ints / lists)."""
import math
import numpy as np
from hypothesis import strategies as st

EPS = {"float32": float(np.finfo(np.float32).eps), "float64": float(np.finfo(np.float64).eps)}
DTYPES = ("float64", "float32")


def rnd(v, dtype):
    """round a python float to the dtype and return it as a python float (exact value)"""
    if dtype == "float32":
        return float(np.float32(v))
    return float(v)


def rnd_list(vs, dtype):
    return [rnd(v, dtype) for v in vs]


_mant = st.floats(1.0, 2.0, exclude_max=True, allow_nan=False)


@st.composite
def mag(draw, dtype, cap=1e3, regimes=None):
    """non-negative magnitude from an explicit regime table; returns (value, regime)"""
    eps = EPS[dtype]
    table = regimes or ("zero", "tiny", "eps", "sqrteps", "mid", "small", "milli", "one", "large")
    r = draw(st.sampled_from(table))
    m = draw(_mant)
    if r == "zero":
        v = 0.0
    elif r == "tiny":
        v = m * 10.0 ** draw(st.integers(-30, -17 if dtype == "float64" else -9))
    elif r == "eps":
        v = eps * m * 2.0 ** draw(st.integers(-6, 6))
    elif r == "sqrteps":
        v = math.sqrt(eps) * m * 2.0 ** draw(st.integers(-6, 6))
    elif r == "mid":
        # between the eps band (eps * 2^+-6) and the sqrt(eps) band (sqrt(eps) * 2^+-6): 3e-14 .. 2e-10 in float64
        v = m * 10.0 ** (draw(st.integers(-14, -10)) if dtype == "float64" else draw(st.integers(-6, -5)))
    elif r == "small":
        v = m * 10.0 ** draw(st.integers(-7, -4))
    elif r == "milli":
        v = m * 10.0 ** draw(st.integers(-3, -2))
    elif r == "one":
        v = draw(st.floats(0.05, 4.0))
    else:
        v = draw(st.floats(4.0, max(4.0, cap)))
    return min(v, cap), r


@st.composite
def direction3(draw):
    kind = draw(st.sampled_from(("axis", "diag", "rand", "rand")))
    if kind == "axis":
        v = [0.0, 0.0, 0.0]
        v[draw(st.integers(0, 2))] = draw(st.sampled_from((1.0, -1.0)))
        return v, kind
    if kind == "diag":
        v = [draw(st.sampled_from((1.0, -1.0, 0.0))) for _ in range(3)]
        if not any(v):
            v[0] = 1.0
        n = math.sqrt(sum(c * c for c in v))
        return [c / n for c in v], kind
    v = [draw(st.floats(-1, 1)) for _ in range(3)]
    n = math.sqrt(sum(c * c for c in v))
    if n < 1e-3:
        return [1.0, 0.0, 0.0], "axis"
    return [c / n for c in v], kind


@st.composite
def vec3(draw, dtype, cap=1e3, regimes=None):
    m, r = draw(mag(dtype, cap, regimes))
    d, k = draw(direction3())
    return [m * c for c in d], r


@st.composite
def angle_mag(draw, dtype, maxk=4):
    """rotation angle: regime table + values around k*pi and beyond pi"""
    r = draw(st.sampled_from(("mag", "mag", "mag", "kpi", "kpi", "wide", "wide", "nearpi")))
    if r == "mag":
        # "one" is uniform on 0.05..4: covers (3, pi) and a little beyond pi without piling up on a cap value
        v, rr = draw(mag(dtype, cap=4.0, regimes=("zero", "tiny", "eps", "sqrteps", "mid", "small", "milli", "one", "one")))
        return v, rr
    if r == "nearpi":
        # log-uniform distance below pi: pi - 10^U(-3.3, -0.8)  (the fixed offsets of "kpi" leave (pi - 0.16, pi - 1e-3) empty)
        return math.pi - 10.0 ** draw(st.floats(-3.3, -0.8)), "nearpi"
    if r == "kpi":
        k = draw(st.integers(1, maxk))
        d = draw(st.sampled_from((0.0, 1e-12, 1e-9, 1e-6, 1e-4, 1e-3))) * draw(st.sampled_from((1.0, -1.0))) * draw(_mant)
        return max(0.0, k * math.pi + d), "pi%d" % k
    return draw(st.floats(math.pi, maxk * math.pi + 1.0)), "wide"


@st.composite
def sigma_val(draw, dtype, cap=8.0):
    v, r = draw(mag(dtype, cap=cap, regimes=("zero", "tiny", "eps", "sqrteps", "mid", "small", "milli", "one", "one", "large")))
    return v * draw(st.sampled_from((1.0, -1.0))), r


@st.composite
def algebra(draw, ltype, dtype, tcap=1e3, maxk=4, scap=8.0):
    """-> (list of floats rounded to dtype, regime descriptor)"""
    th, rth = draw(angle_mag(dtype, maxk))
    d, _ = draw(direction3())
    phi = [th * c for c in d]
    reg = {"phi": rth}
    out = []
    if ltype in ("se3", "sim3"):
        tau, rt = draw(vec3(dtype, tcap))
        reg["tau"] = rt
        out += tau
    out += phi
    if ltype in ("rxso3", "sim3"):
        s, rs = draw(sigma_val(dtype, scap))
        reg["sigma"] = rs
        out.append(s)
    return rnd_list(out, dtype), reg


@st.composite
def unit_quat(draw, dtype, kinds=("angle", "angle", "rand", "w0", "v0", "ident", "pi")):
    """valid unit quaternion (normalised in float64, then rounded to dtype) + regime"""
    kind = draw(st.sampled_from(kinds))
    eps = EPS[dtype]
    d, _ = draw(direction3())
    sgn = draw(st.sampled_from((1.0, -1.0)))
    if kind == "angle":
        th, r = draw(angle_mag(dtype, maxk=1))
        if th > math.pi:
            th = max(0.0, 2 * math.pi - th)      # same rotation class seen from the other side (no pile-up at pi)
        q = [math.sin(th / 2) * c for c in d] + [math.cos(th / 2)]
        reg = "ang:" + r
    elif kind == "rand":
        q = [draw(st.floats(-1, 1)) for _ in range(4)]
        if sum(c * c for c in q) < 1e-4:
            q = [0.0, 0.0, 0.0, 1.0]
        reg = "rand"
    elif kind == "w0":
        w = eps * draw(_mant) * 2.0 ** draw(st.integers(-8, 8)) * draw(st.sampled_from((0.0, 1.0, -1.0)))
        q = [c for c in d] + [w]
        reg = "w~0"
    elif kind == "v0":
        v = eps * draw(_mant) * 2.0 ** draw(st.integers(-8, 8)) * draw(st.sampled_from((0.0, 1.0)))
        q = [v * c for c in d] + [1.0]
        reg = "v~0"
    elif kind == "ident":
        q = [0.0, 0.0, 0.0, 1.0]
        reg = "ident"
    else:
        q = [c for c in d] + [0.0]
        reg = "pi"
    n = math.sqrt(sum(c * c for c in q))
    q = [sgn * c / n for c in q]
    if sgn < 0:
        reg += ":neg"
    q = rnd_list(q, dtype)
    if dtype == "float32":
        # renormalise in float32 arithmetic terms: keep as is (error <= eps32/2 per comp.)
        pass
    return q, reg


@st.composite
def scale_val(draw, dtype, lo=-8.0, hi=8.0):
    kind = draw(st.sampled_from(("one", "near1", "log", "log")))
    eps = EPS[dtype]
    if kind == "one":
        return 1.0, "s=1"
    if kind == "near1":
        k = draw(st.integers(-4, 12))
        sg = draw(st.sampled_from((1.0, -1.0)))
        return rnd(1.0 + sg * eps * 2.0 ** k, dtype), "s~1"
    v = draw(st.floats(lo, hi))
    return rnd(math.exp(v), dtype), ("s:big" if abs(v) > 4 else "s:mid")


@st.composite
def group(draw, ltype, dtype, tcap=1e3, slo=-8.0, shi=8.0, qkinds=None):
    q, rq = draw(unit_quat(dtype, qkinds) if qkinds else unit_quat(dtype))
    reg = {"q": rq}
    out = []
    if ltype in ("SE3", "Sim3"):
        t, rt = draw(vec3(dtype, tcap))
        reg["t"] = rt
        out += rnd_list(t, dtype)
    out += q
    if ltype in ("RxSO3", "Sim3"):
        s, rs = draw(scale_val(dtype, slo, shi))
        reg["s"] = rs
        out.append(s)
    return out, reg


@st.composite
def lshape(draw, max_rank=2, extents=(1, 2, 3), max_items=8):
    r = draw(st.integers(0, max_rank))
    sh = [draw(st.sampled_from(extents)) for _ in range(r)]
    while int(np.prod(sh)) > max_items and sh:
        sh[sh.index(max(sh))] -= 1
    return sh


def regime_key(reg):
    return ",".join("%s=%s" % kv for kv in sorted(reg.items()))


def valid_group(ltype, X, dtype):
    """unit quaternion up to rounding to the dtype, positive finite scale, finite translation"""
    X = np.asarray(X, dtype=np.float64)
    if not np.all(np.isfinite(X)):
        return False
    o = 3 if ltype in ("SE3", "Sim3") else 0
    q = X[o:o + 4]
    if abs(float(np.linalg.norm(q)) - 1.0) > 4 * EPS[dtype]:
        return False
    if ltype in ("RxSO3", "Sim3") and not (X[-1] > 0):
        return False
    return True


def valid_groups(ltype, Xs, dtype):
    return all(valid_group(ltype, X, dtype) for X in Xs)


def in_dtype(vals, dtype):
    """all floats exactly representable in the dtype"""
    a = np.asarray(vals, dtype=np.float64)
    return bool(np.all(a == a.astype(np.float32 if dtype == "float32" else np.float64).astype(np.float64)))
