"""Runner: sharding, seeding, failure buckets, shrinking, replay, evidence.

A property module (vp/props/cXX.py) exposes
    PROPERTY   = "C12"
    RULE       = "how cases are generated and what makes one non-trivial / distinct"
    ASSUMPTIONS = [...]
    SUBS       = [Sub instances]
    selftest() (optional) -> raises on oracle self-test failure (harness error, exit 2)
    KNOWN      (optional) = {finding_key: {"probe": (sub_name, case), "match": fn(sub_name, case, bucket) -> bool}}

A Sub turns *plain JSON data* (the case) into a verdict through `oracle(case, rec)`.
Cases come from a Hypothesis strategy (kind "hyp") or from a deterministic enumeration
(kind "enum").  All randomness comes from Hypothesis; bulk data is a pure function of
drawn integers.
"""
import os, sys, json, time, math, hashlib, traceback, collections, contextlib, itertools

ROOT = os.path.dirname(os.path.dirname(os.path.abspath(__file__)))
NPROC = int(os.environ.get("VERIF_NPROC", "16"))
OUT = os.environ.get("VERIF_OUT") or ROOT      # where evidence / run-time replay files go (mutant runs redirect it)


class CaseAbort(Exception):
    """Raised to stop evaluating the current case (after a recorded failure / discard)."""


class HarnessError(Exception):
    """Something is wrong with the harness itself (never a violation)."""


def _frame_of(exc):
    """innermost frame inside the pypose package, for exception bucketing"""
    tb = traceback.extract_tb(exc.__traceback__)
    inner = None
    for fr in tb:
        if "/pypose/" in fr.filename:
            inner = fr
    if inner is None:
        return "ext"
    return "%s:%s" % (os.path.basename(inner.filename), inner.name)


class Rec:
    """Per-case recorder handed to an oracle."""
    __slots__ = ("labels", "nts", "fails", "discard", "notes")

    def __init__(self):
        self.labels, self.nts, self.fails, self.discard, self.notes = [], [], [], None, {}

    def label(self, *names):
        self.labels.extend(str(n) for n in names)

    def nt(self, desc):
        """mark this case non-trivial; desc identifies its equivalence class for distinctness"""
        self.nts.append(desc if isinstance(desc, str) else repr(desc))

    def fail(self, bucket, msg):
        self.fails.append((str(bucket), str(msg)[:2000]))

    def check(self, cond, bucket, msg):
        if not cond:
            self.fail(bucket, msg() if callable(msg) else msg)
        return bool(cond)

    def discard_case(self, reason):
        self.discard = str(reason)
        raise CaseAbort()

    @contextlib.contextmanager
    def sut(self, what, allow=()):
        """Run code under test: any exception it raises on a valid input is a failure of
        the property (bucketed by type and innermost pypose frame), not a harness error."""
        try:
            yield
        except CaseAbort:
            raise
        except allow:
            raise
        except Exception as e:  # noqa
            if _resource_error(e):
                raise HarnessError("resource error while running the code under test: %s" % str(e)[:200])
            self.fail("raises:%s@%s" % (type(e).__name__, _frame_of(e)),
                      "%s raised %s: %s" % (what, type(e).__name__, str(e)[:500]))
            raise CaseAbort()


class Sub:
    name = "sub"
    kind = "hyp"            # "hyp" | "enum"
    exhaustive = False      # for enum: does the enumeration cover the stated finite domain
    shards = {"quick": NPROC, "thorough": NPROC}
    n = {"quick": 1000, "thorough": 20000}     # hyp: total examples over all shards
    budget_s = {"quick": 100.0, "thorough": 2400.0}   # wall guard per shard (marks truncated)
    fuzz_runs = 0           # > 0: thorough tier adds a coverage-guided atheris campaign of this many runs per process

    def strategy(self, tier):
        raise NotImplementedError

    def cases(self, tier):
        raise NotImplementedError

    def oracle(self, case, rec):
        raise NotImplementedError

    def simplify(self, case):
        """yield structurally smaller candidate cases (optional)"""
        return ()

    def valid(self, case):
        """is this (shrunk) case still inside the input domain?  (the generic float simplifier
        does not know about unit quaternions, SPD matrices ...)"""
        return True

    def size(self, case):
        return len(json.dumps(case))


# ------------------------------------------------------------------------------------
def dhash(s):
    return int.from_bytes(hashlib.blake2b(s.encode(), digest_size=8).digest(), "big")


def derive_seed(*parts):
    return dhash("|".join(str(p) for p in parts)) % (2 ** 62)


def abbreviate(x, maxlen=14, depth=0):
    """shorten long lists for the evidence samples (the replay files keep everything)"""
    if isinstance(x, dict):
        return {k: abbreviate(v, maxlen, depth + 1) for k, v in x.items()}
    if isinstance(x, (list, tuple)):
        if len(x) > maxlen:
            return [abbreviate(v, maxlen, depth + 1) for v in x[:maxlen - 2]] + \
                   ["...(%d items)" % len(x)]
        return [abbreviate(v, maxlen, depth + 1) for v in x]
    if isinstance(x, float):
        return x if math.isfinite(x) else repr(x)
    return x


def _resource_error(e):
    """memory / allocator / OS resource trouble is the machine's, never the code under test's: a harness error (exit 2)"""
    m = str(e).lower()
    return isinstance(e, (MemoryError, OSError)) or any(k in m for k in ("can't allocate", "cannot allocate", "out of memory", "not enough memory", "too many open files"))


def eval_case(sub, case):
    rec = Rec()
    try:
        sub.oracle(case, rec)
    except CaseAbort:
        pass
    except HarnessError:
        raise
    except Exception as e:
        # An exception that escapes the oracle is a harness error - unless it was raised INSIDE pypose while the harness was
        # preparing / post-processing a case with valid inputs (e.g. building arguments with pypose ops): on the unchanged tree
        # that never happens (calibrated), on a modified tree it means pypose broke on a valid call.
        fr = _frame_of(e)
        if fr == "ext" or _resource_error(e):
            raise
        rec.fail("raises:%s@%s" % (type(e).__name__, fr), "pypose raised %s on a valid call made by the harness: %s" % (type(e).__name__, str(e)[:400]))
    return rec


class ShardStats:
    def __init__(self):
        self.evals = 0
        self.discards = collections.Counter()
        self.labels = collections.Counter()
        self.nt = set()
        self.nt_count = 0
        self.samples = []
        self.nt_samples = []
        self.fails = {}          # bucket -> dict(case,msg,size,count)
        self.truncated = 0
        self.wall = 0.0
        self.maxnotes = {}

    def add(self, sub, case, rec):
        if rec.discard is not None:
            self.discards[rec.discard] += 1
            return
        self.evals += 1
        for l in rec.labels:
            self.labels[l] += 1
        for k, v in rec.notes.items():
            if isinstance(v, (int, float)) and v == v:
                if k not in self.maxnotes or v > self.maxnotes[k]:
                    self.maxnotes[k] = v
        if rec.nts:
            self.nt_count += 1
            for d in rec.nts:
                self.nt.add(dhash(sub.name + "#" + d))
            if len(self.nt_samples) < 2:
                self.nt_samples.append(case)
        elif len(self.samples) < 1:
            self.samples.append(case)
        for bucket, msg in rec.fails:
            sz = sub.size(case)
            cur = self.fails.get(bucket)
            if cur is None:
                self.fails[bucket] = {"case": case, "msg": msg, "size": sz, "count": 1}
            else:
                cur["count"] += 1
                if sz < cur["size"]:
                    cur.update(case=case, msg=msg, size=sz)

    def dump(self):
        return {"evals": self.evals, "discards": dict(self.discards), "labels": dict(self.labels),
                "nt": list(self.nt), "nt_count": self.nt_count, "samples": self.samples,
                "nt_samples": self.nt_samples, "fails": self.fails, "truncated": self.truncated,
                "wall": self.wall, "maxnotes": self.maxnotes}


def _load(prop):
    import importlib
    return importlib.import_module("vp.props.%s" % prop.lower())


def _find_sub(mod, name):
    for s in mod.SUBS:
        if s.name == name:
            return s
    raise HarnessError("no sub-check %s in %s" % (name, mod.PROPERTY))


def _worker_init():
    os.environ.setdefault("OMP_NUM_THREADS", "1")
    import torch
    torch.set_num_threads(1)


def run_unit(args):
    """executed in a worker process"""
    prop, sub_name, shard, nshards, tier, vseed = args
    try:
        mod = _load(prop)
        sub = _find_sub(mod, sub_name)
        st = ShardStats()
        t0 = time.time()
        budget = sub.budget_s[tier]
        if sub.kind == "enum":
            for i, case in enumerate(sub.cases(tier)):
                if i % nshards != shard:
                    continue
                if time.time() - t0 > budget:
                    st.truncated += 1
                    continue
                st.add(sub, case, eval_case(sub, case))
        else:
            import hypothesis
            from hypothesis import given, settings, seed, Phase, HealthCheck
            n = max(1, int(math.ceil(sub.n[tier] / nshards)))
            strat = sub.strategy(tier)

            @seed(derive_seed(vseed, prop, sub_name, shard))
            @settings(max_examples=n, database=None, deadline=None, derandomize=False,
                      phases=[Phase.generate], suppress_health_check=list(HealthCheck),
                      report_multiple_bugs=False)
            @given(strat)
            def run(case):
                if time.time() - t0 > budget:
                    st.truncated += 1
                    return
                st.add(sub, case, eval_case(sub, case))
            run()
        st.wall = time.time() - t0
        return {"ok": True, "sub": sub_name, "shard": shard, "stats": st.dump()}
    except Exception:
        return {"ok": False, "sub": sub_name, "shard": shard, "error": traceback.format_exc()}


# ------------------------------------------------------------------------------------
# shrinking
def _float_candidates(v):
    if not math.isfinite(v):
        return [0.0]
    out = [0.0, 1.0, -1.0 if v < 0 else 1.0]
    if v != 0:
        for digits in (1, 2, 4):
            out.append(float("%.*g" % (digits, v)))
        out.append(float(round(v)))
    return [c for c in dict.fromkeys(out) if c != v]


def _leaves(x, path=()):
    if isinstance(x, dict):
        for k in x:
            yield from _leaves(x[k], path + (k,))
    elif isinstance(x, list):
        for i, v in enumerate(x):
            yield from _leaves(v, path + (i,))
    elif isinstance(x, float):
        yield path, x


def _set(x, path, v):
    x = json.loads(json.dumps(x))
    cur = x
    for p in path[:-1]:
        cur = cur[p]
    cur[path[-1]] = v
    return x


def shrink_case(sub, case, bucket, max_evals=400, max_s=60.0):
    """greedy minimisation: structural candidates from the sub-check, then float leaves"""
    t0 = time.time()
    evals = 0

    def still_fails(c):
        nonlocal evals
        evals += 1
        try:
            if not sub.valid(c):
                return None
            rec = eval_case(sub, c)
        except Exception:
            return None
        if rec.discard is not None:
            return None
        for b, m in rec.fails:
            if b == bucket:
                return m
        return None

    msg = still_fails(case)
    if msg is None:
        return case, None, evals
    improved = True
    while improved and evals < max_evals and time.time() - t0 < max_s:
        improved = False
        for cand in sub.simplify(case):
            if evals >= max_evals or time.time() - t0 > max_s:
                break
            m = still_fails(cand)
            if m is not None:
                case, msg, improved = cand, m, True
                break
        if improved:
            continue
        for path, v in list(_leaves(case)):
            if evals >= max_evals or time.time() - t0 > max_s:
                break
            for c in _float_candidates(v):
                cand = _set(case, path, c)
                m = still_fails(cand)
                if m is not None:
                    case, msg, improved = cand, m, True
                    break
    return case, msg, evals


def shrink_unit(args):
    prop, sub_name, bucket, case, tier = args
    try:
        mod = _load(prop)
        sub = _find_sub(mod, sub_name)
        lim = (300, 40.0) if tier == "quick" else (3000, 240.0)
        c, m, n = shrink_case(sub, case, bucket, *lim)
        return {"ok": True, "sub": sub_name, "bucket": bucket, "case": c, "msg": m, "evals": n}
    except Exception:
        return {"ok": False, "sub": sub_name, "bucket": bucket, "error": traceback.format_exc()}


def hyp_shrink_unit(args):
    """Re-run the failing shard with Hypothesis' own shrinker restricted to one bucket."""
    prop, sub_name, shard, nshards, tier, vseed, bucket, max_s = args
    try:
        mod = _load(prop)
        sub = _find_sub(mod, sub_name)
        from hypothesis import given, settings, seed, Phase, HealthCheck
        n = max(1, int(math.ceil(sub.n[tier] / nshards)))
        best = {"case": None, "size": None, "msg": None}
        t0 = time.time()

        @seed(derive_seed(vseed, prop, sub_name, shard))
        @settings(max_examples=n, database=None, deadline=None, derandomize=False,
                  phases=[Phase.generate, Phase.shrink], suppress_health_check=list(HealthCheck),
                  report_multiple_bugs=False)
        @given(sub.strategy(tier))
        def run(case):
            if time.time() - t0 > max_s:
                return     # budget exhausted: stop failing (Hypothesis then reports Flaky; caught)
            rec = eval_case(sub, case)
            for b, m in rec.fails:
                if b == bucket:
                    sz = sub.size(case)
                    if best["size"] is None or sz <= best["size"]:
                        best.update(case=case, size=sz, msg=m)
                    raise AssertionError(bucket)
        try:
            run()
        except BaseException:
            pass
        return {"ok": True, "sub": sub_name, "bucket": bucket, "case": best["case"], "msg": best["msg"]}
    except Exception:
        return {"ok": False, "sub": sub_name, "bucket": bucket, "error": traceback.format_exc()}


# ------------------------------------------------------------------------------------
def load_known():
    p = os.path.join(ROOT, "known_findings.json")
    if not os.path.exists(p):
        return []
    with open(p) as f:
        return json.load(f).get("findings", [])


def bucket_file(prop, sub_name, bucket):
    h = hashlib.blake2b((sub_name + "|" + bucket).encode(), digest_size=5).hexdigest()
    safe = "".join(ch if ch.isalnum() else "_" for ch in bucket)[:60]
    d = os.path.join(OUT, "replays", prop)
    os.makedirs(d, exist_ok=True)
    return os.path.join(d, "%s__%s__%s.json" % (sub_name, safe, h))


def write_replay(path, prop, sub_name, bucket, case, msg, extra=None):
    obj = {"property": prop, "sub": sub_name, "bucket": bucket, "message": msg, "case": case}
    if extra:
        obj.update(extra)
    with open(path, "w") as f:
        json.dump(obj, f, indent=1)
    return path


def replay(prop, path):
    mod = _load(prop)
    with open(path) as f:
        obj = json.load(f)
    sub = _find_sub(mod, obj["sub"])
    rec = eval_case(sub, obj["case"])
    return obj, rec


def main(prop, tier="quick", replay_path=None, only=None, do_shrink=True):
    t_start = time.time()
    os.environ.setdefault("OMP_NUM_THREADS", "1")
    os.environ.setdefault("PYTHONHASHSEED", "0")
    vseed = int(os.environ.get("VERIF_SEED", "1") or "1")
    prop = prop.upper()
    try:
        mod = _load(prop)
    except Exception:
        traceback.print_exc()
        print("HARNESS-ERROR property=%s cannot import check module" % prop)
        return 2

    if replay_path:
        obj, rec = replay(prop, replay_path)
        if rec.discard is not None:
            print("replay: case discarded (%s)" % rec.discard)
            return 2
        if rec.fails:
            for b, m in rec.fails:
                print("  [%s] %s" % (b, m))
            print("VIOLATION property=%s replay=%s" % (prop, replay_path))
            return 1
        print("replay: property holds on %s" % replay_path)
        return 0

    import multiprocessing as mp
    ctx = mp.get_context("spawn")
    pool = ctx.Pool(NPROC, initializer=_worker_init)
    violations, known_lines, harness_errors = [], [], []
    try:
        # --- self test of the oracles -----------------------------------------------
        if hasattr(mod, "selftest"):
            try:
                mod.selftest()
            except Exception:
                traceback.print_exc()
                print("HARNESS-ERROR property=%s oracle self-test failed" % prop)
                return 2

        # --- known findings ---------------------------------------------------------
        known = [k for k in load_known() if prop in k.get("properties", [])]
        open_known = [k for k in known if k.get("status") == "open"]
        KN = getattr(mod, "KNOWN", {})
        for k in open_known:
            ent = KN.get(k["key"])
            if ent is None:
                harness_errors.append("open finding %s has no predicate in module" % k["key"])
                continue
            sname, case = ent["probe"]
            rec = eval_case(_find_sub(mod, sname), case)
            if rec.fails:
                known_lines.append("KNOWN-FINDING: property=%s %s" % (prop, k["text"]))

        def is_known(sub_name, case, bucket):
            for k in open_known:
                ent = KN.get(k["key"])
                if ent and ent["match"](sub_name, case, bucket):
                    return k["key"]
            return None

        # --- regression corpus ------------------------------------------------------
        regress_dir = os.path.join(ROOT, "replays", prop, "regress")
        n_regress = 0
        if os.path.isdir(regress_dir):
            for fn in sorted(os.listdir(regress_dir)):
                if not fn.endswith(".json"):
                    continue
                path = os.path.join(regress_dir, fn)
                obj, rec = replay(prop, path)
                n_regress += 1
                for b, m in rec.fails:
                    if is_known(obj["sub"], obj["case"], b):
                        continue
                    violations.append((obj["sub"], b, m, path))
                    break

        # --- generated search -------------------------------------------------------
        subs = [s for s in mod.SUBS if (only is None or s.name in only)]
        units = []
        for s in subs:
            ns = s.shards[tier]
            for sh in range(ns):
                units.append((prop, s.name, sh, ns, tier, vseed))
        merged = {s.name: {"evals": 0, "discards": collections.Counter(), "labels": collections.Counter(),
                           "nt": set(), "nt_count": 0, "samples": [], "nt_samples": [], "fails": {},
                           "truncated": 0, "wall": 0.0, "excluded_known": 0, "maxnotes": {}} for s in subs}
        # watchdog: a worker that hangs (e.g. inside a C kernel on a malformed tensor) must not block the run for ever
        limit = max(s.budget_s[tier] for s in subs) * 2 + 300 if subs else 300
        it = pool.imap_unordered(run_unit, units, chunksize=1)
        results, t_wd = [], time.time()
        for _ in range(len(units)):
            try:
                results.append(it.next(timeout=max(1.0, limit - (time.time() - t_wd))))
            except mp.TimeoutError:
                harness_errors.append("watchdog: a work unit did not finish within %.0f s (worker hung?); %d of %d units done" % (limit, len(results), len(units)))
                break
        for res in results:
            if not res["ok"]:
                harness_errors.append("%s shard %s: %s" % (res["sub"], res["shard"], res["error"]))
                continue
            m, st = merged[res["sub"]], res["stats"]
            m["evals"] += st["evals"]
            m["discards"].update(st["discards"])
            m["labels"].update(st["labels"])
            m["nt"].update(st["nt"])
            m["nt_count"] += st["nt_count"]
            m["truncated"] += st["truncated"]
            m["wall"] = max(m["wall"], st["wall"])
            for k, v in st["maxnotes"].items():
                m["maxnotes"][k] = max(v, m["maxnotes"].get(k, v))
            if len(m["samples"]) < 2:
                m["samples"].extend(st["samples"])
            if len(m["nt_samples"]) < 4:
                m["nt_samples"].extend(st["nt_samples"])
            for b, f in st["fails"].items():
                f = dict(f, shard=res["shard"])
                cur = m["fails"].get(b)
                if cur is None:
                    m["fails"][b] = f
                else:
                    cnt = cur["count"] + f["count"]
                    if f["size"] < cur["size"]:
                        m["fails"][b] = f
                    m["fails"][b]["count"] = cnt

        # --- coverage-guided campaign (thorough tier, sub-checks that opted in) ---------------
        fuzz_info = {}
        fsubs = [s for s in subs if tier == "thorough" and getattr(s, "fuzz_runs", 0) and s.kind == "hyp"]
        if fsubs and os.environ.get("VERIF_NO_FUZZ") != "1":
            import subprocess, concurrent.futures as cf
            per = max(1, NPROC // len(fsubs))
            jobs_f = [(s, i) for s in fsubs for i in range(per)]

            def run_fuzz(job):
                s, i = job
                outdir = os.path.join("/tmp", "vp_fuzz_%s_%s_%d_%d" % (prop, s.name, vseed, i))
                cmd = [sys.executable, "-m", "vp.fuzz", prop, s.name, "--runs", str(s.fuzz_runs), "--seed", str(derive_seed(vseed, prop, s.name, "fuzz", i) % (2 ** 31)), "--out", outdir]
                try:
                    pr = subprocess.run(cmd, cwd=ROOT, capture_output=True, text=True, timeout=s.budget_s["thorough"])
                    line = [l for l in pr.stdout.splitlines() if l.startswith("FUZZ-SUMMARY ")]
                    return s.name, (json.loads(line[-1][len("FUZZ-SUMMARY "):]) if line else {"error": (pr.stderr or pr.stdout)[-400:]})
                except subprocess.TimeoutExpired:
                    return s.name, {"error": "timeout"}
                finally:
                    import shutil
                    shutil.rmtree(outdir, ignore_errors=True)
            with cf.ThreadPoolExecutor(NPROC) as ex:
                for name, out in ex.map(run_fuzz, jobs_f):
                    fi = fuzz_info.setdefault(name, {"processes": 0, "evaluations": 0, "nontrivial": 0, "errors": 0, "corpus_files": 0})
                    fi["processes"] += 1
                    if "error" in out:
                        fi["errors"] += 1
                        fi["last_error"] = out["error"]
                        continue
                    fi["evaluations"] += out["evals"]; fi["nontrivial"] += out["nt_count"]; fi["corpus_files"] += out["corpus_files"]
                    m = merged[name]
                    m["evals"] += out["evals"]; m["nt_count"] += out["nt_count"]
                    for b, f in out["fails"].items():
                        cur = m["fails"].get(b)
                        if cur is None:
                            m["fails"][b] = {"case": f["case"], "msg": f["msg"], "size": len(json.dumps(f["case"])), "count": f["count"], "shard": "atheris"}
                        else:
                            cur["count"] += f["count"]

        # --- failures: known / shrink / replay files -----------------------------------
        jobs = []
        for s in subs:
            m = merged[s.name]
            for b, f in sorted(m["fails"].items()):
                kk = is_known(s.name, f["case"], b)
                if kk:
                    m["excluded_known"] += f["count"]
                    continue
                jobs.append((s, b, f))
        if jobs:
            # bounded number of shrinks; every bucket still gets a replay file
            todo = jobs[:NPROC * 2] if do_shrink else []
            shr = {}
            if todo:
                for res in pool.imap_unordered(
                        shrink_unit, [(prop, s.name, b, f["case"], tier) for s, b, f in todo], chunksize=1):
                    if res["ok"] and res["msg"] is not None:
                        shr[(res["sub"], res["bucket"])] = (res["case"], res["msg"])
            for s, b, f in jobs:
                case, msg = shr.get((s.name, b), (f["case"], f["msg"]))
                path = write_replay(bucket_file(prop, s.name, b), prop, s.name, b, case, msg,
                                    {"count_in_run": f["count"], "seed": vseed, "tier": tier,
                                     "unshrunk_case": f["case"] if case != f["case"] else None})
                violations.append((s.name, b, msg, path))
    finally:
        pool.terminate()
        pool.join()

    # --- evidence ---------------------------------------------------------------------
    wall = time.time() - t_start
    total_evals = sum(m["evals"] for m in merged.values())
    nt_all = set()
    for m in merged.values():
        nt_all.update(m["nt"])
    samples = []
    for s in subs:
        m = merged[s.name]
        for c in (m["nt_samples"][:3] + m["samples"][:1]):
            samples.append({"sub": s.name, "case": abbreviate(c)})
    per_sub = {}
    gen_problem = []
    for s in subs:
        m = merged[s.name]
        nd = sum(m["discards"].values())
        per_sub[s.name] = {
            "kind": s.kind, "exhaustive": bool(s.exhaustive and m["truncated"] == 0 and s.kind == "enum"),
            "evaluations": m["evals"], "nontrivial_cases": m["nt_count"], "distinct_nontrivial": len(m["nt"]),
            "discarded": dict(m["discards"]), "labels": dict(sorted(m["labels"].items(), key=lambda kv: -kv[1])[:250]),
            "excluded_known": m["excluded_known"], "budget_truncated": m["truncated"],
            "max_observed": {k: float("%.4g" % v) for k, v in m["maxnotes"].items()},
            "failure_buckets": {b: f["count"] for b, f in m["fails"].items()}, "slowest_shard_s": round(m["wall"], 1)}
        if s.name in fuzz_info:
            per_sub[s.name]["atheris_campaign"] = fuzz_info[s.name]
        if nd > 0.3 * max(1, nd + m["evals"]) and nd + m["evals"] >= 20:
            gen_problem.append("%s discards %d of %d" % (s.name, nd, nd + m["evals"]))
        if m["evals"] == 0:
            gen_problem.append("%s evaluated nothing" % s.name)
    ev = {
        "property_id": prop, "tier": tier, "seed": vseed, "level": "exploration",
        "coverage": {
            "evaluations": int(total_evals), "distinct_nontrivial": int(len(nt_all)),
            "rule": mod.RULE, "samples": samples,
            "exhaustive": bool(subs) and all(per_sub[s.name]["exhaustive"] for s in subs),
            "sub_checks": per_sub, "regression_replays": n_regress,
            "known_findings_reported": known_lines,
        },
        "assumptions": list(getattr(mod, "ASSUMPTIONS", [])),
        "wall_s": round(wall, 2), "violations": len(violations),
    }
    if only is None:
        os.makedirs(os.path.join(OUT, "evidence"), exist_ok=True)
        with open(os.path.join(OUT, "evidence", "%s.json" % prop), "w") as f:
            json.dump(ev, f, indent=1, default=str)

    # --- report -----------------------------------------------------------------------
    for s in subs:
        ps = per_sub[s.name]
        print("%s/%s: %d evaluations, %d non-trivial (%d distinct)%s%s%s [%.0fs]" % (
            prop, s.name, ps["evaluations"], ps["nontrivial_cases"], ps["distinct_nontrivial"],
            ", exhaustive" if ps["exhaustive"] else "",
            ", discarded %d" % sum(ps["discarded"].values()) if ps["discarded"] else "",
            ", TRUNCATED %d" % ps["budget_truncated"] if ps["budget_truncated"] else "",
            ps["slowest_shard_s"]))
    for l in known_lines:
        print(l)
    if harness_errors or gen_problem:
        for h in harness_errors:
            print("HARNESS-ERROR property=%s %s" % (prop, h))
        for g in gen_problem:
            print("HARNESS-ERROR property=%s generator: %s" % (prop, g))
        return 2
    if violations:
        for sname, b, msg, path in violations:
            print("  %s [%s] %s" % (sname, b, (msg or "")[:300]))
            print("VIOLATION property=%s replay=%s" % (prop, path))
        return 1
    print("OK property=%s tier=%s seed=%d evaluations=%d distinct_nontrivial=%d wall=%.1fs" % (
        prop, tier, vseed, total_evals, len(nt_all), wall))
    return 0
