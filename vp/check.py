"""CLI: python -m vp.check <ID> [--tier quick|thorough] [--replay FILE] [--only sub,sub]"""
import os, sys, argparse


def _ensure_deps():
    deps = os.path.join(os.path.dirname(os.path.dirname(os.path.abspath(__file__))), ".deps")
    if os.path.isdir(deps) and deps not in sys.path:
        sys.path.append(deps)
        os.environ["PYTHONPATH"] = os.environ.get("PYTHONPATH", "") + os.pathsep + deps
    try:
        import hypothesis  # noqa
    except ImportError:
        import subprocess
        subprocess.call([sys.executable, "-m", "pip", "install", "-q", "--no-index", "--find-links",
                         "/opt/veriftools/wheels", "--target", deps, "hypothesis"])
        sys.path.append(deps)
        os.environ["PYTHONPATH"] = deps + os.pathsep + os.environ.get("PYTHONPATH", "")


def main(argv=None):
    ap = argparse.ArgumentParser()
    ap.add_argument("prop")
    ap.add_argument("--tier", default=os.environ.get("VERIF_TIER") or "quick", choices=["quick", "thorough"])
    ap.add_argument("--replay", default=None)
    ap.add_argument("--only", default=None)
    ap.add_argument("--no-shrink", action="store_true")
    a = ap.parse_args(argv)
    os.environ.setdefault("OMP_NUM_THREADS", "1")
    os.environ.setdefault("MKL_NUM_THREADS", "1")
    os.environ.setdefault("PYTHONHASHSEED", "0")
    os.environ.setdefault("PYTHONWARNINGS", "ignore")
    import warnings
    warnings.simplefilter("ignore")
    _ensure_deps()
    from vp import core
    try:
        return core.main(a.prop, a.tier, a.replay, a.only.split(",") if a.only else None,
                         do_shrink=not a.no_shrink)
    except core.HarnessError as e:
        print("HARNESS-ERROR property=%s %s" % (a.prop, e))
        return 2
    except Exception:
        import traceback
        traceback.print_exc()
        print("HARNESS-ERROR property=%s unexpected exception in harness" % a.prop)
        return 2


if __name__ == "__main__":
    sys.exit(main())
