"""Property-based verification harness for pypose (see /verif/DESIGN.md)."""
