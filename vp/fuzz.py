"""Coverage-guided fuzzing of a Hypothesis sub-check with atheris (libFuzzer).

  python -m vp.fuzz <PROP> <sub> [--runs N] [--seed S] [--out DIR]

The fuzz target is `hypothesis_test.hypothesis.fuzz_one_input`: libFuzzer's byte string is decoded by the SAME strategy that the
random search uses, the SAME oracle judges the case, and a failure is written as the same JSON replay file - only the search is
different (coverage feedback over the Python code of pypose, instrumented at import).  Useful where pypose branches in Python
(optimizer loop, schedulers/steppers, handled-function dispatch, sparse merge-join), useless for tensor masks (see DESIGN 5).
One process; the parent (`vp.fuzzall`) shards sub-checks / seeds over the cores.  Prints one JSON summary line.
"""
import os, sys, json, time, argparse

ROOT = os.path.dirname(os.path.dirname(os.path.abspath(__file__)))
sys.path.append(os.path.join(ROOT, ".deps"))


def main():
    ap = argparse.ArgumentParser()
    ap.add_argument("prop"); ap.add_argument("sub")
    ap.add_argument("--runs", type=int, default=20000)
    ap.add_argument("--seed", type=int, default=1)
    ap.add_argument("--max-len", type=int, default=4096)
    ap.add_argument("--out", default=None)
    a = ap.parse_args()
    os.environ.setdefault("OMP_NUM_THREADS", "1")
    os.environ.setdefault("PYTHONWARNINGS", "ignore")
    import warnings
    warnings.simplefilter("ignore")
    import atheris
    with atheris.instrument_imports(include=["pypose"]):
        import pypose  # noqa
    import torch
    torch.set_num_threads(1)
    from hypothesis import given, settings, HealthCheck
    from vp import core
    mod = core._load(a.prop)
    sub = core._find_sub(mod, a.sub)
    st_ = core.ShardStats()
    t0 = time.time()

    @settings(database=None, deadline=None, suppress_health_check=list(HealthCheck))
    @given(sub.strategy("thorough"))
    def target(case):
        st_.add(sub, case, core.eval_case(sub, case))

    fuzz_one = target.hypothesis.fuzz_one_input
    corpus = a.out or os.path.join("/tmp", "vp_fuzz_%s_%s_%d" % (a.prop, a.sub, a.seed))
    os.makedirs(corpus, exist_ok=True)
    # Seed corpus: libFuzzer starts from tiny inputs and only grows them on new coverage, but a short buffer cannot be decoded
    # into a case (Hypothesis runs out of bytes), so rejected inputs never reach pypose and nothing grows.  Start from long
    # pseudo-random buffers (pure function of the seed) which decode into valid cases; the fuzzer mutates from there.
    import random
    rng = random.Random(a.seed)
    if not os.listdir(corpus):
        for i in range(48):
            with open(os.path.join(corpus, "seed_%02d" % i), "wb") as f:
                f.write(bytes(rng.getrandbits(8) for _ in range(a.max_len // (1 + i % 4))))

    def TestOneInput(data):
        try:
            fuzz_one(data)
        except core.CaseAbort:
            pass

    argv = [sys.argv[0], "-runs=%d" % a.runs, "-seed=%d" % a.seed, "-max_len=%d" % a.max_len, "-len_control=0", "-print_final_stats=0", "-verbosity=0",
            # torch + instrumented pypose sit near libFuzzer's default 2 GB RSS limit: reaching it would abort the campaign and drop an
            # oom-* artifact into the working directory.  No limit (the runner's watchdog bounds the campaign), artifacts beside the corpus.
            "-rss_limit_mb=0", "-malloc_limit_mb=0", "-artifact_prefix=%s/" % corpus, corpus]

    def report():
        out = st_.dump()
        print("FUZZ-SUMMARY " + json.dumps({"prop": a.prop, "sub": a.sub, "seed": a.seed, "evals": out["evals"], "nt_count": out["nt_count"],
                                           "distinct_nt": len(out["nt"]), "fails": {b: {"count": f["count"], "msg": f["msg"], "case": f["case"]} for b, f in out["fails"].items()},
                                           "wall": round(time.time() - t0, 1), "corpus_files": len(os.listdir(corpus))}, default=str))
        sys.stdout.flush()
    # atheris.Fuzz() calls os._exit at the end (atexit does not run): report from the target itself after the last run
    done = {"n": 0}
    orig = TestOneInput

    def counted(data):
        orig(data)
        done["n"] += 1
        if done["n"] == a.runs:
            report()
    atheris.Setup(argv, counted)
    atheris.Fuzz()


if __name__ == "__main__":
    main()
